//! Stand-in for the `kani` crate used only for the *native replay* of a counterexample
//! (DESIGN.md 3.6): `any()` reads the recorded byte vectors in call order; once they are used
//! up (draws that under Kani came from stubs of randomness, which do not exist natively) it
//! falls back to a seeded pseudo-random stream. `assume(false)` ends the run as "not a witness".
pub use kani_macros::*;

use std::cell::RefCell;

struct Source {
    recorded: Vec<Vec<u8>>,
    next: usize,
    rng: u64,
    desync: bool,
}

thread_local! {
    static SOURCE: RefCell<Option<Source>> = RefCell::new(None);
}

fn load() -> Source {
    let mut recorded = Vec::new();
    if let Ok(path) = std::env::var("VERIF_REPLAY_VECTOR") {
        let text = std::fs::read_to_string(&path).expect("cannot read VERIF_REPLAY_VECTOR");
        // one any() per line: space separated decimal bytes
        for line in text.lines() {
            let line = line.trim();
            if line.is_empty() && recorded.is_empty() {
                continue;
            }
            recorded.push(
                line.split_whitespace()
                    .map(|t| t.parse::<u8>().expect("byte"))
                    .collect(),
            );
        }
    }
    let seed = std::env::var("VERIF_REPLAY_SEED")
        .ok()
        .and_then(|s| s.parse::<u64>().ok())
        .unwrap_or(1);
    Source {
        recorded,
        next: 0,
        rng: seed.wrapping_mul(0x9E37_79B9_7F4A_7C15) | 1,
        desync: false,
    }
}

/// Restart the value source for a new trial: recorded prefix again, pseudo-random tail from `seed`.
pub fn replay_reset(seed: u64) {
    SOURCE.with(|s| {
        let mut s = s.borrow_mut();
        let src = s.get_or_insert_with(load);
        src.next = 0;
        src.desync = false;
        src.rng = seed.wrapping_mul(0x9E37_79B9_7F4A_7C15) | 1;
    })
}

/// True if the last trial asked for a recorded value with a different size than recorded.
pub fn replay_desynced() -> bool {
    SOURCE.with(|s| s.borrow().as_ref().map(|s| s.desync).unwrap_or(false))
}

/// Panic payload of a failed `assume`: the trial is not a witness.
pub struct AssumeFailed;

fn next_bytes(n: usize) -> Vec<u8> {
    SOURCE.with(|s| {
        let mut s = s.borrow_mut();
        let src = s.get_or_insert_with(load);
        if src.next < src.recorded.len() {
            let v = src.recorded[src.next].clone();
            src.next += 1;
            if v.len() == n {
                return v;
            }
            src.desync = true;
            let mut v = v;
            v.resize(n, 0);
            return v;
        }
        (0..n)
            .map(|_| {
                src.rng ^= src.rng << 13;
                src.rng ^= src.rng >> 7;
                src.rng ^= src.rng << 17;
                (src.rng >> 24) as u8
            })
            .collect()
    })
}

pub trait Arbitrary: Sized {
    fn any() -> Self;
}

macro_rules! arb_int {
    ($($t:ty),*) => { $(
        impl Arbitrary for $t {
            fn any() -> Self {
                let b = next_bytes(std::mem::size_of::<$t>());
                let mut a = [0u8; std::mem::size_of::<$t>()];
                a.copy_from_slice(&b);
                <$t>::from_le_bytes(a)
            }
        }
    )* };
}
arb_int!(u8, u16, u32, u64, u128, usize, i8, i16, i32, i64, i128, isize);

impl Arbitrary for bool {
    fn any() -> Self {
        let b = next_bytes(1)[0];
        // Kani assumes the byte is 0 or 1; a pseudo-random tail byte is reduced to its low bit.
        b & 1 == 1
    }
}

impl<T: Arbitrary, const N: usize> Arbitrary for [T; N] {
    fn any() -> Self {
        [(); N].map(|_| T::any())
    }
}

impl<A: Arbitrary, B: Arbitrary> Arbitrary for (A, B) {
    fn any() -> Self {
        (A::any(), B::any())
    }
}

impl<T: Arbitrary> Arbitrary for Option<T> {
    fn any() -> Self {
        if bool::any() {
            Some(T::any())
        } else {
            None
        }
    }
}

pub fn any<T: Arbitrary>() -> T {
    T::any()
}

pub fn any_where<T: Arbitrary, F: FnOnce(&T) -> bool>(f: F) -> T {
    let v = T::any();
    assume(f(&v));
    v
}

pub fn assume(cond: bool) {
    if !cond {
        std::panic::resume_unwind(Box::new(AssumeFailed));
    }
}

#[macro_export]
macro_rules! cover {
    ($($t:tt)*) => {{}};
}
