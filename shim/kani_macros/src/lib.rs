//! Pass-through stand-ins for Kani's attribute macros, used only for the *native replay* of a
//! counterexample (DESIGN.md 3.6). `#[kani::proof]` additionally exports the harness under an
//! unmangled name so that the replay runner can call it.
extern crate proc_macro;
use proc_macro::{TokenStream, TokenTree};

fn fn_name(item: &TokenStream) -> Option<String> {
    let mut prev_fn = false;
    for tt in item.clone() {
        if let TokenTree::Ident(id) = &tt {
            let s = id.to_string();
            if prev_fn {
                return Some(s);
            }
            prev_fn = s == "fn";
        } else {
            prev_fn = false;
        }
    }
    None
}

#[proc_macro_attribute]
pub fn proof(_attr: TokenStream, item: TokenStream) -> TokenStream {
    let name = fn_name(&item).expect("#[kani::proof] on a function");
    let export: TokenStream = format!(
        "#[no_mangle] pub fn __verif_replay_{name}() {{ {name}() }}"
    )
    .parse()
    .unwrap();
    let mut out = item;
    out.extend(export);
    out
}

macro_rules! passthrough {
    ($($n:ident),*) => { $(
        #[proc_macro_attribute]
        pub fn $n(_attr: TokenStream, item: TokenStream) -> TokenStream { item }
    )* };
}
passthrough!(unwind, stub, solver, should_panic, recursion, stub_verified, proof_for_contract);
