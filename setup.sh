#!/bin/bash
# Run once after a fresh restore (offline): builds the stand-in kani crate and the native replay
# runner, and warms Kani's dependency cache so that quick checks only recompile `btdht`.
set -e
cd "$(dirname "$0")"
export CARGO_NET_OFFLINE=true BTDHT_VERIF="$(pwd)"
mkdir -p .build evidence replay
python3 - <<'PY'
import sys, os
sys.path.insert(0, "lib")
import replay, kanirun
replay.build_shim()
for rel in (False, True):
    exe, out = replay.build_runner(rel)
    if exe is None:
        print(out[-3000:]); sys.exit("replay runner build failed")
res, out = kanirun.run_group(["info_hash::verif::c20_oracle_accepts_bep42_vectors"], 300, 1)
r = res["info_hash::verif::c20_oracle_accepts_bep42_vectors"]
print("kani warm-up:", r.status)
if r.status != "success":
    print(out[-3000:]); sys.exit("kani warm-up failed")
PY
echo "setup done"
