#!/bin/bash
# verify_seed.sh <worktree> <change.diff> <demo.diff>
# Confirms in a scratch worktree: (a) suite passes with the change, (b) with change+demo something fails,
# (c) with the demo alone everything passes. Prints a one-line JSON summary.
wt="$1"; change="$2"; demo="$3"
cd "$wt" || exit 9
git checkout -q -- . ; git clean -fdq -e OUT -e target -e Cargo.lock
export CARGO_NET_OFFLINE=true
summ() { grep -E "^test result" | awk '{p+=$4; f+=$6} END {print p" "f}'; }
git apply "$change" || { echo '{"error":"change does not apply"}'; exit 1; }
a=$(cargo test --offline 2>&1 | summ)
git apply "$demo" || { echo '{"error":"demo does not apply on change"}'; git checkout -q -- .; exit 1; }
b_out=$(cargo test --offline 2>&1)
b=$(echo "$b_out" | summ)
bfail=$(echo "$b_out" | grep -E "^test .* FAILED$|^test .*FAILED" | head -5 | tr '\n' ';')
git checkout -q -- . ; git clean -fdq -e OUT -e target -e Cargo.lock
git apply "$demo" || { echo '{"error":"demo does not apply on HEAD"}'; exit 1; }
c=$(cargo test --offline 2>&1 | summ)
git checkout -q -- . ; git clean -fdq -e OUT -e target -e Cargo.lock
echo "{\"with_change\":\"$a\",\"with_change_and_demo\":\"$b\",\"failing\":\"$bfail\",\"demo_only\":\"$c\"}"
