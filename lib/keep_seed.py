#!/usr/bin/env python3
"""keep_seed.py <prop> <n> <src dir> --needs "..." --verified '{json}' --check-exit N --caught-by "..." [--note "..."]
Stores a confirmed seeded change under /verif/seeded/<prop>-<n>/ (patch.diff, demo.diff, meta.json)."""
import argparse, json, os, shutil
ap = argparse.ArgumentParser()
ap.add_argument("prop"); ap.add_argument("n"); ap.add_argument("src")
ap.add_argument("--needs", required=True); ap.add_argument("--verified", required=True)
ap.add_argument("--check-exit", type=int, required=True); ap.add_argument("--caught-by", default="")
ap.add_argument("--note", default="")
a = ap.parse_args()
d = f"/verif/seeded/{a.prop}-{a.n}"
os.makedirs(d, exist_ok=True)
shutil.copy(os.path.join(a.src, f"change{a.n}.diff"), os.path.join(d, "patch.diff"))
shutil.copy(os.path.join(a.src, f"demo{a.n}.diff"), os.path.join(d, "demo.diff"))
meta = {
    "property": a.prop,
    "origin": "independent sub-agent given only the property text and a scratch worktree of /repo",
    "needs_to_manifest": a.needs,
    "confirmed_in_scratch_worktree": json.loads(a.verified),
    "confirmation_cmd": f"lib/verify_seed.sh <worktree> patch.diff demo.diff  (cargo test --offline: with change / with change+demo / demo only; numbers are passed failed)",
    "check_cmd": f"git -C /repo apply seeded/{a.prop}-{a.n}/patch.diff && ./check {a.prop}; git -C /repo checkout -- .",
    "check_exit": a.check_exit,
    "detected": a.check_exit == 1,
    "caught_by": a.caught_by,
    "note": a.note,
}
json.dump(meta, open(os.path.join(d, "meta.json"), "w"), indent=1)
print("kept", d)
