"""Run Kani on harnesses of /repo's current working tree and parse its verdicts.

The encoding is regenerated on every call: `cargo kani` recompiles the `btdht` crate from
/repo (with cfg(kani) hooks on and BTDHT_VERIF pointing at this framework) whenever a source
file or a harness changed.
"""
import json
import os
import re
import shutil
import subprocess
import tempfile
import time

VERIF = os.path.dirname(os.path.dirname(os.path.abspath(__file__)))
REPO = os.environ.get("VERIF_REPO", "/repo")
BUILD = os.environ.get("VERIF_BUILD", "/verif/.build")
KANI_TARGET = os.path.join(BUILD, "kani")
MEM_KB = int(os.environ.get("VERIF_MEM_KB", str(24 * 1024 * 1024)))  # per process


def base_env():
    env = dict(os.environ)
    env["BTDHT_VERIF"] = VERIF
    env["CARGO_NET_OFFLINE"] = "true"
    env.setdefault("CARGO_TERM_COLOR", "never")
    return env


def prune_old_builds(max_age_s=12 * 3600):
    """Each distinct harness set gets its own codegen dir; drop stale ones."""
    root = os.path.join(KANI_TARGET, "kani", "x86_64-unknown-linux-gnu", "debug", "build", "btdht")
    try:
        now = time.time()
        for d in os.listdir(root):
            p = os.path.join(root, d)
            if now - os.path.getmtime(p) > max_age_s:
                shutil.rmtree(p, ignore_errors=True)
    except OSError:
        pass


class HarnessResult:
    def __init__(self, name):
        self.name = name
        self.status = "missing"  # success | failed | timeout | error | missing | buildfail
        self.checks = []  # failed checks: dicts(description, function, file, line, category)
        self.total = 0
        self.passed = 0
        self.failed = 0
        self.unreachable = 0
        self.undetermined = 0
        self.covers_satisfied = 0
        self.covers_total = 0
        self.unwind_failures = 0
        self.functions = set()
        self.stats = {}
        self.duration_s = 0.0
        self.stubs = []
        self.log = ""

    def to_json(self):
        return {
            "harness": self.name,
            "status": self.status,
            "cbmc_properties": self.total,
            "passed": self.passed,
            "failed": self.failed,
            "unreachable": self.unreachable,
            "undetermined": self.undetermined,
            "covers_satisfied": self.covers_satisfied,
            "covers_total": self.covers_total,
            "unwinding_assertion_failures": self.unwind_failures,
            "functions_encoded": len(self.functions),
            "stubs_applied": self.stubs,
            "cbmc_stats": self.stats,
            "duration_s": round(self.duration_s, 2),
            "failed_checks": self.checks[:10],
        }


def _is_unwind(desc):
    return "unwinding assertion" in desc or "recursion unwinding" in desc


def run_group(harnesses, timeout_s, jobs, extra_args=None, playback=False, log_path=None):
    """Run one `cargo kani` over `harnesses` (fully qualified names). Returns {name: HarnessResult}.

    timeout_s is per harness (Kani's --harness-timeout); the whole call gets an outer cap too.
    """
    extra_args = extra_args or []
    os.makedirs(KANI_TARGET, exist_ok=True)
    tmpdir = tempfile.mkdtemp(prefix="kani_", dir=BUILD)
    jpath = os.path.join(tmpdir, "result.json")
    cmd = [
        "cargo", "kani",
        "--manifest-path", os.path.join(REPO, "Cargo.toml"),
        "--target-dir", KANI_TARGET,
        "-Z", "stubbing", "-Z", "unstable-options",
        "--exact", "--output-format", "terse",
        "--harness-timeout", f"{int(timeout_s)}s",
        "--export-json", jpath,
    ]
    mem_kb = MEM_KB
    if playback:
        # the traces make the JSON the Kani driver parses enormous: give the (single) process tree
        # more address space. (--no-assertion-reach-checks would shrink it, but with that flag Kani
        # 0.68 reported "0 failed / VERIFICATION FAILED" without a playback for a harness whose
        # assertion fails on every path.)
        cmd += ["-Z", "concrete-playback", "--concrete-playback=print"]
        mem_kb = max(MEM_KB, 44 * 1024 * 1024)
    for h in harnesses:
        cmd += ["--harness", h]
    if jobs > 1 and len(harnesses) > 1:
        cmd += ["-j", str(min(jobs, len(harnesses)))]
    if extra_args:
        cmd += extra_args
    shell = f"ulimit -s unlimited 2>/dev/null; ulimit -v {mem_kb}; exec " + " ".join(_q(c) for c in cmd)
    n_waves = (len(harnesses) + max(jobs, 1) - 1) // max(jobs, 1)
    outer = 600 + timeout_s * n_waves + 120
    t0 = time.time()
    try:
        p = subprocess.run(["bash", "-c", shell], cwd=REPO, env=base_env(), stdout=subprocess.PIPE,
                           stderr=subprocess.STDOUT, timeout=outer, text=True, errors="replace")
        out = p.stdout
        rc = p.returncode
    except subprocess.TimeoutExpired as e:
        out = (e.stdout or b"")
        if isinstance(out, bytes):
            out = out.decode(errors="replace")
        out += "\nOUTER-TIMEOUT\n"
        rc = -9
        _kill_stray_cbmc()
    wall = time.time() - t0
    if log_path:
        with open(log_path, "a") as f:
            f.write("$ " + " ".join(cmd) + "\n" + out + f"\n[rc={rc} wall={wall:.1f}s]\n")
    results = {h: HarnessResult(h) for h in harnesses}
    for r in results.values():
        r.log = log_path or ""
    build_failed = ("error: could not compile" in out or "error[E" in out
                    or "error: Failed to match" in out or "Failed to compile" in out
                    or re.search(r"^error: ", out, re.M) is not None and "Checking harness" not in out)
    if build_failed and "Checking harness" not in out:
        for r in results.values():
            r.status = "buildfail"
        _attach_text(results, out)
        shutil.rmtree(tmpdir, ignore_errors=True)
        return results, out
    data = None
    if os.path.exists(jpath):
        try:
            data = json.load(open(jpath))
        except Exception:
            data = None
    if data:
        _parse_json(results, data)
    _parse_text(results, out)
    shutil.rmtree(tmpdir, ignore_errors=True)
    return results, out


def resolve_unwindset(harness_full, rules, log_path=None):
    """Per-loop / per-recursion bounds for one harness, regenerated on every run (DESIGN.md F16).

    rules: list of (kind, regex, bound), kind in {"loop", "recursion"}. Phase 1 lets Kani build the
    harness' final goto binary (normal run, 1 s harness timeout, result ignored); the loop ids are then
    read from it with `cbmc --show-loops` and matched against the regexes (on the mangled id). A
    "recursion" rule bounds the recursion of every function owning a matching loop id (CBMC keys
    recursion bounds by function identifier). Returns (extra cargo-kani args, {id: bound}).
    Unwinding assertions stay on: a bound that is too small is reported, never silently cut."""
    import glob
    run_group([harness_full], 1, 1, log_path=log_path)
    short = harness_full.split("::")[-1]
    pat = os.path.join(KANI_TARGET, "kani", "*", "debug", "build", "btdht", "*", "out", f"*{len(short)}{short}.out")
    cands = sorted(glob.glob(pat), key=os.path.getmtime)
    if not cands:
        return None, {}
    try:
        out = subprocess.run(["cbmc", "--show-loops", cands[-1]], stdout=subprocess.PIPE, stderr=subprocess.DEVNULL,
                             text=True, timeout=300).stdout
    except subprocess.TimeoutExpired:
        return None, {}
    ids = re.findall(r"^Loop (\S+):$", out, re.M)
    chosen = {}
    for kind, rx, bound in rules:
        for lid in ids:
            if re.search(rx, lid):
                key = lid if kind == "loop" else lid.rsplit(".", 1)[0]
                chosen[key] = bound
    if not chosen:
        return None, {}
    arg = ",".join(f"{k}:{v}" for k, v in sorted(chosen.items()))
    return ["--cbmc-args", "--unwindset", arg], chosen


def _q(s):
    if re.match(r"^[A-Za-z0-9_./:=,+-]+$", s):
        return s
    return "'" + s.replace("'", "'\\''") + "'"


def _kill_stray_cbmc():
    try:
        out = subprocess.run(["ps", "-eo", "pid,args"], stdout=subprocess.PIPE, text=True).stdout
        for line in out.splitlines():
            parts = line.strip().split(None, 1)
            if len(parts) == 2 and re.match(r"^(\S*/)?cbmc ", parts[1]) and KANI_TARGET in parts[1]:
                try:
                    os.kill(int(parts[0]), 9)
                except OSError:
                    pass
    except Exception:
        pass


def _parse_json(results, data):
    for pd in (data.get("property_details") or []):
        r = results.get(pd.get("harness_id"))
        if not r:
            continue
        d = pd.get("property_details") or {}
        g = lambda k: d.get(k) or 0  # noqa: E731  (values are null when CBMC produced no result)
        r.total = g("total_properties")
        r.passed = g("passed")
        r.failed = g("failed")
        r.unreachable = g("unreachable")
        r.undetermined = g("undetermined") + g("solver_error")
        r.covers_satisfied = g("satisfied")
        r.covers_total = g("satisfied") + g("unsatisfiable")
    for c in (data.get("cbmc") or []):
        r = results.get(c.get("harness_id"))
        if r:
            st = c.get("cbmc_stats") or {}
            r.stats = {k: st.get(k) for k in ("runtime_symex_s", "runtime_solver_s", "vccs_generated",
                                              "vccs_remaining", "size_program_expression") if k in st}
    for res in ((data.get("verification_results") or {}).get("results") or []):
        r = results.get(res.get("harness_id"))
        if not r:
            continue
        st = res.get("status")
        r.duration_s = (res.get("duration_ms") or 0) / 1000.0
        for c in res.get("checks") or []:
            fn = c.get("function")
            if fn:
                r.functions.add(fn)
            if c.get("status") in ("Failure", "Failed", "FAILURE"):
                loc = c.get("location") or {}
                entry = {"description": c.get("description", ""), "function": fn,
                         "file": loc.get("file"), "line": loc.get("line"), "category": c.get("category")}
                r.checks.append(entry)
                if _is_unwind(entry["description"]) or c.get("category") == "unwind":
                    r.unwind_failures += 1
        if st == "Success":
            r.status = "success"
        elif st in ("Failure", "Failed"):
            r.status = "failed"
        elif st:
            r.status = st.lower()


def _attach_text(results, out):
    for r in results.values():
        r.text = out[-4000:]


def _parse_text(results, out):
    """Fill in what the JSON lacks (stubs, timeouts, failures when JSON is missing)."""
    # split by harness (with -j, lines are prefixed "Thread k: " and blocks interleave by thread)
    cur = {}
    blocks = {}
    last_tid = "0"
    for line in out.splitlines():
        m = re.match(r"^(?:Thread (\d+): )?(.*)$", line)
        tid, body = m.group(1) or last_tid, m.group(2)
        last_tid = tid
        m2 = re.match(r"^Checking harness (\S+?)\.\.\.$", body)
        if m2:
            cur[tid] = m2.group(1)
            blocks.setdefault(cur[tid], [])
            continue
        if tid in cur:
            blocks[cur[tid]].append(body)
    for name, lines in blocks.items():
        r = results.get(name)
        if not r:
            continue
        text = "\n".join(lines)
        r.stubs = re.findall(r"- Stub: (.*)", text)
        if r.status == "missing":
            if "VERIFICATION:- SUCCESSFUL" in text:
                r.status = "success"
            elif "VERIFICATION:- FAILED" in text:
                r.status = "failed"
        if re.search(r"timed out|Timeout|TIMEOUT", text) and r.status != "success":
            r.status = "timeout"
        if "Status: ERROR" in text or "CBMC failed" in text or "out of memory" in text.lower():
            if r.status != "success":
                r.status = "error"
        m = re.search(r"\*\* (\d+) of (\d+) failed", text)
        if m and not r.total:
            r.failed, r.total = int(m.group(1)), int(m.group(2))
        m = re.search(r"\*\* (\d+) of (\d+) cover properties satisfied", text)
        if m and not r.covers_total:
            r.covers_satisfied, r.covers_total = int(m.group(1)), int(m.group(2))
        if not r.checks and r.status == "failed":
            for fm in re.finditer(r'Failed Checks: (.*)\n File: "([^"]*)", line (\d+), in (\S+)', text):
                d = fm.group(1).strip().strip('"')
                r.checks.append({"description": d, "function": fm.group(4), "file": fm.group(2),
                                 "line": fm.group(3), "category": "assertion"})
                if _is_unwind(d):
                    r.unwind_failures += 1
        m = re.search(r"Verification Time: ([0-9.]+)s", text)
        if m and not r.duration_s:
            r.duration_s = float(m.group(1))
    if "OUTER-TIMEOUT" in out:
        for r in results.values():
            if r.status == "missing":
                r.status = "timeout"


def extract_playback(out, harness):
    """Parse the concrete-playback unit tests Kani printed for `harness`.

    Returns a list of (check description, [byte lists]) - one per failed check; tests generated
    for satisfied cover points are skipped."""
    found = []
    for m in re.finditer(r"Concrete playback unit test for `" + re.escape(harness) + r"`:\s*```(.*?)```", out, re.S):
        body = m.group(1)
        cm = re.search(r"Check for `([a-z_]+)`: (.*)", body)
        kind = cm.group(1) if cm else "?"
        desc = cm.group(2).strip() if cm else ""
        vals = []
        for vm in re.finditer(r"^\s*vec!\[([0-9, ]*)\],?\s*$", body, re.M):
            txt = vm.group(1).strip()
            vals.append([int(x) for x in txt.split(",") if x.strip() != ""])
        found.append((kind, desc, vals))
    # Kani prints one test per distinct value vector: when the witness of a failed check coincides
    # with that of a satisfied cover point it is labelled with the cover only. Failed checks first,
    # cover-labelled vectors as further candidates (the native replay decides).
    found.sort(key=lambda x: x[0] == "cover")
    return [(d, v) for _k, d, v in found]
