"""Which harnesses decide which property, per tier, and what each one covers.

H(name, module, tiers, timeout_s, inputs, bounds, encodes, extra=None)
  name    - harness function name (globally unique; prefix = property id in lower case)
  module  - Rust module path of the hook the harness lives in
  tiers   - subset of {"quick", "thorough"}
  inputs  - what the solver quantifies over (symbolic inputs), in words
  bounds  - loop unwindings / sizes / event counts; what is enumerated concretely
  encodes - btdht functions under verification in this harness (real code)
"""


class H:
    def __init__(self, name, module, tiers, timeout_s, inputs, bounds, encodes, extra=None, role="property"):
        self.name = name
        self.module = module
        self.tiers = tiers
        self.timeout_s = timeout_s
        self.inputs = inputs
        self.bounds = bounds
        self.encodes = encodes
        self.extra = extra or []
        self.role = role  # property | oracle-validation | environment-validation

    @property
    def full(self):
        return f"{self.module}::verif::{self.name}"


Q = ("quick", "thorough")
T = ("thorough",)

STUB_RANDOM = "rand::random -> arbitrary value of its type from a symbolic generator (crate::verif::stub_random)"
STUB_CRC = ("crc32c::crc32c_append -> bitwise reference CRC-32C (the crate's SSE4.2 intrinsics are not modelled by CBMC); "
            "the real crc32c runs in every native replay")
CLOCK = ("clock: crate::time is replaced under cfg(kani) by a virtual clock (harness/vtime.rs, same API, integer "
         "seconds+nanoseconds); time.rs's own 40 lines of std::time wrapping are not under verification")

PROPS = {}

PROPS["C20"] = dict(
    design_ref="DESIGN.md 4 (C20)",
    stubs=[STUB_RANDOM, STUB_CRC],
    assumptions=["CRC-32C of the `crc32c` crate equals the bitwise reference (checked natively on random buffers by setup/replay, not by the solver)"],
    outside=["the crc32c crate's SSE4.2 code path (trusted; exercised natively in replay/sanity runs only)"],
    harnesses=[
        H("c20_from_ip_v4", "info_hash", Q, 300,
          "all 2^32 IPv4 addresses (4 symbolic octets) x every value of each of the 19 rand::random::<u8>() draws",
          "no bound beyond fixed loop counts; unwind 21",
          ["InfoHash::from_ip"]),
        H("c20_from_ip_v6", "info_hash", Q, 300,
          "all 2^128 IPv6 addresses (16 symbolic octets) x every value of each random draw",
          "no bound beyond fixed loop counts; unwind 21",
          ["InfoHash::from_ip"]),
        H("c20_oracle_accepts_bep42_vectors", "info_hash", Q, 120,
          "the five published BEP42 example ids (symbolic choice) and every single-bit corruption of their first 21 bits",
          "5 vectors x 21 bit positions, decided symbolically",
          ["(oracle only) harness validator bep42_valid + reference CRC-32C"], role="oracle-validation"),
    ],
)
