"""Which harnesses decide which property, per tier, and what each one covers.

H(name, module, tiers, timeout_s, inputs, bounds, encodes, extra=None)
  name    - harness function name (globally unique; prefix = property id in lower case)
  module  - Rust module path of the hook the harness lives in
  tiers   - subset of {"quick", "thorough"}
  inputs  - what the solver quantifies over (symbolic inputs), in words
  bounds  - loop unwindings / sizes / event counts; what is enumerated concretely
  encodes - btdht functions under verification in this harness (real code)
"""


class H:
    def __init__(self, name, module, tiers, timeout_s, inputs, bounds, encodes, extra=None, role="property", unwindset=None):
        self.name = name
        self.module = module
        self.tiers = tiers
        self.timeout_s = timeout_s
        self.inputs = inputs
        self.bounds = bounds
        self.encodes = encodes
        self.extra = extra or []
        self.unwindset = unwindset or []  # [(kind, regex on the mangled loop id, bound)], resolved per run (kanirun.resolve_unwindset)
        self.unwindset_resolved = {}
        self.role = role  # property | oracle-validation | environment-validation

    @property
    def full(self):
        return f"{self.module}::verif::{self.name}"


Q = ("quick", "thorough")
T = ("thorough",)

STUB_RANDOM = "rand::random -> arbitrary value of its type from a symbolic generator (crate::verif::stub_random)"
STUB_CRC = ("crc32c::crc32c_append -> bitwise reference CRC-32C (the crate's SSE4.2 intrinsics are not modelled by CBMC); "
            "the real crc32c runs in every native replay")
CLOCK = ("clock: crate::time is replaced under cfg(kani) by a virtual clock (harness/vtime.rs, same API, integer "
         "seconds+nanoseconds); time.rs's own 40 lines of std::time wrapping are not under verification")

PROPS = {}

PROPS["C20"] = dict(
    design_ref="DESIGN.md 4 (C20)",
    stubs=[STUB_RANDOM, STUB_CRC],
    assumptions=["CRC-32C of the `crc32c` crate equals the bitwise reference (checked natively on random buffers by setup/replay, not by the solver)"],
    outside=["the crc32c crate's SSE4.2 code path (trusted; exercised natively in replay/sanity runs only)"],
    harnesses=[
        H("c20_from_ip_v4", "info_hash", Q, 300,
          "all 2^32 IPv4 addresses (4 symbolic octets) x every value of each of the 19 rand::random::<u8>() draws",
          "no bound beyond fixed loop counts; unwind 21",
          ["InfoHash::from_ip"]),
        H("c20_from_ip_v6", "info_hash", Q, 300,
          "all 2^128 IPv6 addresses (16 symbolic octets) x every value of each random draw",
          "no bound beyond fixed loop counts; unwind 21",
          ["InfoHash::from_ip"]),
        H("c20_oracle_accepts_bep42_vectors", "info_hash", Q, 120,
          "the five published BEP42 example ids (symbolic choice) and every single-bit corruption of their first 21 bits",
          "5 vectors x 21 bit positions, decided symbolically",
          ["(oracle only) harness validator bep42_valid + reference CRC-32C"], role="oracle-validation"),
    ],
)

PROPS["C10"] = dict(
    design_ref="DESIGN.md 4 (C10)",
    stubs=[CLOCK],
    assumptions=["events reach a contact only while it is reported (find_node_mut filters on pingable) - mirrored in the harness",
                 "a contact dropped as bad and named again by hearsay starts a new history as questionable (DESIGN.md F12)"],
    outside=["that handler.rs calls remote_request only for known nodes; load_contacts wiring; interleavings across contacts"],
    harnesses=[
        H("c10_history_k5", "node", Q, 1200,
          "every history of 5 events per contact, each event symbolic in {answer, hearsay, query received, query sent, wait d} "
          "with d symbolic in [0, 68 min] at 1 ns resolution; first contact as responder or by hearsay; clock start symbolic",
          "k = 5 events (shorter histories included as zero waits); unwind 21 (20-byte id memcmp)",
          ["Node::as_good", "Node::as_questionable", "Node::update", "Node::local_request", "Node::remote_request",
           "Node::status", "Node::is_pingable"]),
        H("c10_fifteen_minute_boundary", "node", Q, 300,
          "time since last answer / last received query symbolic in [14 min, 16 min] at 1 ns resolution",
          "one contact, one wait", ["Node::status", "Node::remote_request"]),
        H("c10_history_k6", "node", T, 5000, "as k5 with 6 events", "k = 6; unwind 21",
          ["Node::update", "Node::local_request", "Node::remote_request", "Node::status"]),
    ],
)

SLOT = ("slot state symbolic: never answered (what status() sees in an empty slot) or answered/queried at symbolic ages, "
        "0..3 unanswered queries; identities concrete and pairwise distinct")
COARSE = "ages from {0, 899, 900, 3600} s"
FINE = "ages every second in [0, 2 h]"


def _c08(name, tiers, tmo, which, fill, offer, ages):
    return H(name, "bucket", tiers, tmo,
             f"slots {which} arbitrary ({SLOT}; {ages}), other slots {fill}; offer symbolic in {{good, questionable, bad}} of {offer}",
             "one Bucket::add_node from an arbitrary state (inductive step, any history length); unwind 21",
             ["Bucket::add_node", "Node::update", "Node::status", "Node::as_good", "Node::as_questionable", "Node::as_bad"])


PROPS["C08"] = dict(
    design_ref="DESIGN.md 4 (C08)",
    stubs=[CLOCK],
    assumptions=["representation invariant of the pre-state: live handles in a bucket are pairwise distinct (re-asserted after the step)",
                 "a free slot is represented either by Bucket::new's placeholder or by a never-answered node with a unique identity "
                 "(add_node treats both alike unless the offered identity equals it); slot occupancy is concrete per harness "
                 "(DESIGN.md F21: CBMC mis-simplifies references into array-of-struct elements at a symbolic index)"],
    outside=["table-level split across more than the modelled buckets (see the table harnesses)"],
    harnesses=[
        _c08("c08_bucket_lo4_ph_fresh", Q, 900, "0..3", "Bucket::new placeholders", "an identity not in the bucket", COARSE),
        _c08("c08_bucket_lo4_ph_repeat2", Q, 900, "0..3", "Bucket::new placeholders", "the identity stored in slot 2", COARSE),
        _c08("c08_bucket_hi4_good_fresh", Q, 900, "4..7", "good nodes", "an identity not in the bucket", COARSE),
        _c08("c08_bucket_hi4_questionable_fresh", Q, 900, "4..7", "questionable nodes", "an identity not in the bucket", COARSE),
        _c08("c08_bucket_lo4_questionable_repeat0", Q, 900, "0..3", "questionable nodes", "the identity stored in slot 0", COARSE),
        H("c08_bucket_placement_kernel", "table", Q, 300, "shared-prefix length 0..=160, bucket count 1..=160, bucket index: symbolic",
          "loop-free", ["bucket_placement", "can_split_bucket"]),
        H("c08_leading_bit_count_kernel", "table", Q, 600, "two 20-byte ids: arbitrary first id, first differing bit position symbolic (0..=160), arbitrary bits behind it",
          "20-byte loops; unwind 22", ["leading_bit_count", "InfoHash::bitxor", "InfoHash::leading_zeros", "InfoHash::flip_bit"]),
        H("c08_table_add_full_sorted_bucket", "table", Q, 1800,
          "2-bucket table; bucket 0 (cannot split) full: 7 good nodes + one node of arbitrary standing (coarse ages); newcomer good or questionable (symbolic) for that bucket",
          "one RoutingTable::add_node, no split possible; unwind 66", ["RoutingTable::add_node", "RoutingTable::bucket_node", "RoutingTable::split_bucket", "can_split_bucket", "Bucket::add_node"]),
        _c08("c08_bucket_all8_fresh", T, 3000, "0..7 (all)", "-", "an identity not in the bucket", COARSE),
        _c08("c08_bucket_all8_repeat0", T, 3000, "0..7 (all)", "-", "the identity stored in slot 0", COARSE),
        _c08("c08_bucket_all8_repeat5", T, 3000, "0..7 (all)", "-", "the identity stored in slot 5", COARSE),
        _c08("c08_bucket_all8_repeat7", T, 3000, "0..7 (all)", "-", "the identity stored in slot 7", COARSE),
        _c08("c08_bucket_fine_lo4_ph_fresh", T, 3000, "0..3", "Bucket::new placeholders", "an identity not in the bucket", FINE),
        _c08("c08_bucket_fine_hi4_questionable_fresh", T, 3000, "4..7", "questionable nodes", "an identity not in the bucket", FINE),
        _c08("c08_bucket_fine_lo4_good_repeat1", T, 3000, "0..3", "good nodes", "the identity stored in slot 1", FINE),
    ],
)

STUB_SHA1 = ("InfoHash::sha1 -> collision-free lazy random oracle (equal input => equal output, different input => different "
             "output; <= 12 queries); the real SHA-1 runs in every native replay")
STUB_SECRETS = ("rand::random::<u32>() (token secrets) -> arbitrary value assumed different from every earlier secret "
                "(a collision has probability 2^-32 per pair)")
STUB_FMT = "alloc::fmt::format -> empty String (error/log text is not the subject)"
STUB_RS = "std::hash::RandomState::new -> zero keys (its real body reads OS randomness through FFI)"


def _c06(name, tiers, tmo, k, fam, who):
    what = {0: "the issued token from the same IP", 1: "the issued token from a different IP (symbolic, != issuer)",
            2: "20 arbitrary bytes never issued (assumed different from the store's tokens for that IP)",
            3: "a token another store (independent secrets) issued to the same IP"}[who]
    return H(name, "token", tiers, tmo,
             f"{fam} address symbolic (all bits); store age at issue symbolic in [0, 3 h]; {k} interleaved other event(s), each symbolic in "
             f"{{none, checkout(other IP), checkin(other IP, issued token), checkout(same IP)}} at symbolic gaps in [0, 1 h] (1 ns); "
             f"final gap symbolic in [0, 1 h]; final check-in presents {what}; clock start symbolic",
             f"k = {k} interleaved events; token age range [0, 3 h]; unwind 21",
             ["TokenStore::new", "TokenStore::checkout", "TokenStore::checkin", "TokenStore::refresh_check", "intervals_passed",
              "generate_token_from_addr*", "validate_token_from_addr*"])


PROPS["C06"] = dict(
    design_ref="DESIGN.md 4 (C06)",
    stubs=[CLOCK, STUB_SHA1, STUB_SECRETS],
    assumptions=["SHA-1 is collision-free on the queried inputs", "fresh secrets differ from earlier ones"],
    outside=["that handler.rs passes addr.ip() and gates add_item on the result (F7)", "more than 2 interleaved events between issue and check"],
    harnesses=[
        H("c06_lifetime_k3_v4_steady_traffic", "token", Q, 1500,
          "IPv4 address symbolic (all bits); store age at issue symbolic in [0, 3 h]; 3 interleaved events, each symbolic in {none, checkout(other IP)} "
          "at symbolic gaps in [0, 1 h] (1 ns); final gap symbolic in [0, 1 h]; final check-in presents the issued token from the same IP; clock start symbolic",
          "k = 3 interleaved events of two kinds (the four-kind k = 3 instance is in the thorough tier); unwind 21",
          ["TokenStore::new", "TokenStore::checkout", "TokenStore::checkin", "TokenStore::refresh_check", "intervals_passed"]),
        _c06("c06_lifetime_k1_v6", Q, 1200, 1, "IPv6", 0),
        _c06("c06_other_ip_k0_v4", Q, 1200, 0, "IPv4", 1),
        _c06("c06_other_ip_k0_v6", Q, 1200, 0, "IPv6", 1),
        _c06("c06_never_issued_k0_v4", Q, 1200, 0, "IPv4", 2),
        _c06("c06_foreign_store_k0_v4", Q, 1200, 0, "IPv4", 3),
        H("c06_token_length_gate", "token", Q, 300, "40 symbolic bytes; prefixes of length 0, 19, 20, 21, 40",
          "lengths enumerated concretely (F15)", ["Token::new"]),
        _c06("c06_lifetime_k2_v4", T, 3000, 2, "IPv4", 0),
        _c06("c06_lifetime_k2_v6", T, 3000, 2, "IPv6", 0),
        _c06("c06_lifetime_k1_v4", T, 1200, 1, "IPv4", 0),
        _c06("c06_lifetime_k3_v4", T, 4000, 3, "IPv4", 0),
        _c06("c06_other_ip_k1_v6", T, 3000, 1, "IPv6", 1),
        _c06("c06_never_issued_k1_v6", T, 3000, 1, "IPv6", 2),
        _c06("c06_foreign_store_k1_v6", T, 3000, 1, "IPv6", 3),
    ],
)

PROPS["C09"] = dict(
    design_ref="DESIGN.md 4 (C09)",
    stubs=[],
    assumptions=["induction over the walk (V(s,s) = {s}; each step adds exactly the nearest unvisited index) is argued, the step and the "
                 "total length are mechanised"],
    outside=["ClosestNodes::next on whole tables (did not terminate: DESIGN.md F20/F22)", "the filter(family).take(8) lines in handler.rs (F7)"],
    harnesses=[
        H("c09_next_bucket_index_step", "table", Q, 300,
          "start index s in 0..=160, current index c (= s or any index < 160), probe index i: all symbolic",
          "one step of the alternating walk (loop-free); no bound", ["next_bucket_index", "index_is_in_bounds"]),
        H("c09_closest_setup_b3", "table", Q, 900, "target = local id with symbolic bit s flipped (s in 0..=160, 160 = the local id); probe bucket index symbolic",
          "3-bucket table built directly (slots empty); no next() call", ["RoutingTable::closest_nodes", "ClosestNodes::new", "precompute_assorted_nodes", "bucket_iterator", "leading_bit_count", "InfoHash::flip_bit", "InfoHash::leading_zeros"]),
        H("c09_closest_setup_b1", "table", T, 1500, "as c09_closest_setup_b3 on a 1-bucket table (the initial table: every node is assorted)", "no next() call", ["ClosestNodes::new", "precompute_assorted_nodes", "bucket_iterator"]),
        H("c09_closest_setup_b2", "table", T, 1500, "as c09_closest_setup_b3 on a 2-bucket table", "no next() call", ["ClosestNodes::new", "precompute_assorted_nodes", "bucket_iterator"]),
        H("c09_closest_setup_full_table", "table", T, 2500, "160-bucket table (slots empty); target bit s and probe bucket index symbolic",
          "no next() call; 160 pushes unrolled (unwind 163); needs an unlimited stack for CBMC", ["ClosestNodes::new", "precompute_assorted_nodes", "bucket_iterator"]),
        H("c09_walk_length", "table", Q, 1200, "start index s in 0..=160 symbolic",
          "whole walk, 161 iterations unrolled (unwind 163)", ["next_bucket_index"]),
    ],
)

PROPS["C19"] = dict(
    design_ref="DESIGN.md 4 (C19)",
    stubs=["hook H2: shuffle(thread_rng) is replaced under cfg(kani) by <= 2 arbitrary transpositions (a permutation is all the property uses)"],
    assumptions=["in-block states: the block's contents are constrained only at the two positions read - inside the block's range and "
                 "distinct, which any permutation of the block guarantees",
                 "blocks are disjoint until the wrap, hence no id repeats within one activity before 2^24 draws (argued from the block harnesses)"],
    outside=["markers other than {0, LEN, max-LEN, max} for block regeneration (concrete executions, F14)",
             "the shared id of the first bootstrap round (bootstrap.rs, F6)"],
    harnesses=[
        H("c19_mid_generate_in_block_at_0", "transaction", Q, 600, "action id < 2^40, block number, the two ids read: symbolic; position 0", "2 draws; unwind 2", ["MIDGenerator::generate", "TransactionID::new", "TransactionID::action_id", "TransactionID::from_bytes"]),
        H("c19_mid_generate_in_block_at_1000", "transaction", Q, 600, "as above, position 1000", "2 draws", ["MIDGenerator::generate"]),
        H("c19_mid_generate_in_block_at_last", "transaction", Q, 600, "as above, last two positions of a block", "2 draws", ["MIDGenerator::generate"]),
        H("c19_aid_generate_in_block_at_0", "transaction", Q, 600, "block number and the two action ids read symbolic; position 0", "2 draws", ["AIDGenerator::generate", "MIDGenerator::new"]),
        H("c19_aid_generate_in_block_at_last", "transaction", Q, 600, "as above, last two positions", "2 draws", ["AIDGenerator::generate"]),
        H("c19_mid_across_boundary_new_generator", "transaction", Q, 900, "action id symbolic; new generator (marker 0, lazy first block); shuffle hook pinned to identity", "one draw across a block boundary; 2048-iteration fill", ["MIDGenerator::generate", "generate_mids"]),
        H("c19_mid_across_boundary_wrap", "transaction", Q, 900, "action id symbolic; marker 2^24 (wrap); shuffle hook pinned to identity", "one draw across the wrap", ["MIDGenerator::generate", "generate_mids"]),
        H("c19_mid_across_boundary_second_block_permuted", "transaction", T, 3000, "action id symbolic; marker LEN; shuffle hook = up to two symbolic transpositions", "one draw across a block boundary", ["MIDGenerator::generate", "generate_mids"]),
        H("c19_from_bytes_length_gate", "transaction", Q, 300, "32 symbolic bytes; every prefix length 0..=32", "lengths enumerated", ["TransactionID::from_bytes"]),
        H("c19_mid_block_first", "transaction", T, 1500, "marker 0 (concrete execution), symbolic probe index", "2048-iteration fill", ["generate_mids"]),
        H("c19_mid_block_wrap", "transaction", Q, 900, "marker 2^24 (concrete execution), symbolic probe index", "2048-iteration fill", ["generate_mids"]),
        H("c19_mid_block_last", "transaction", T, 1500, "marker 2^24 - LEN", "2048-iteration fill", ["generate_mids"]),
        H("c19_aid_block_last", "transaction", Q, 1500, "marker 2^40 - LEN", "2048-iteration fill", ["generate_aids"]),
        H("c19_aid_block_wrap", "transaction", T, 1500, "marker 2^40", "2048-iteration fill", ["generate_aids"]),
        H("c19_mid_generate_in_block", "transaction", T, 3000, "as in_block_at_*, with the position in the block symbolic too", "2 draws", ["MIDGenerator::generate"]),
        H("c19_aid_generate_in_block", "transaction", T, 3000, "as aid in_block_at_*, position symbolic", "2 draws", ["AIDGenerator::generate"]),
    ],
)

PROPS["C13"] = dict(
    design_ref="DESIGN.md 4 (C13)",
    stubs=[STUB_FMT],
    assumptions=["decoding is driven through serde's in-memory deserializers / a structural stand-in that calls visitors the way "
                 "torrust-serde-bencode does; the bencode text lexer itself is outside (DESIGN.md F14)"],
    outside=["the bencode library's text parser and emitter", "lists longer than 2 entries", "arbitrary UTF-8 error text"],
    harnesses=[
        H("c13_nodes_v4_lengths", "compact", Q, 600, "53 symbolic bytes; blob lengths 0,1,25,26,27,51,52,53", "lengths enumerated (F15); unwind 80", ["compact::nodes_v4::deserialize", "compact::nodes::deserialize", "decode_socket_addr"]),
        H("c13_nodes_v6_lengths", "compact", Q, 600, "77 symbolic bytes; blob lengths 0,26,37,38,39,75,76,77", "lengths enumerated", ["compact::nodes_v6::deserialize", "decode_socket_addr"]),
        H("c13_values_element_lengths", "compact", Q, 600, "two elements of symbolic bytes; element lengths 0,5,6,7,17,18,19", "lists <= 2 elements", ["compact::values::deserialize", "decode_socket_addr"]),
        H("c13_socket_addr_roundtrip", "compact", Q, 300, "family, 16 address bytes, port: symbolic", "none", ["encode_socket_addr", "decode_socket_addr"]),
        H("c13_raw_message_cross_check", "message", Q, 600,
          "message type tag (q/r/e), method tag (4 methods or absent), argument variant (4 kinds or absent), presence of r and e parts: all symbolic; ids, token, transaction id symbolic",
          "one TryFrom<RawMessage>; unwind 24", ["TryFrom<RawMessage> for Message (q/a cross-check, missing-part checks)"]),
        H("c13_codec_roundtrip_native", "message", Q, 60,
          "(native only) pseudo-random messages of every kind (t 0..32 bytes, want, explicit/implied port, token 0..23 bytes, 0..5 values of mixed "
          "families, 0..8 nodes per family, error code/text): real encoder == reference BEP3/5/32 encoder, decode(encode(m)) == m, and decoding "
          "with rotated key order and unknown keys (v, ip, ro, noseed, scrape, name) at both dictionary levels gives the same message",
          "sampling - the whole-text codec cannot be brought into the solver (F8/F14/F24/F26); does not decide the property",
          ["Message::encode", "Message::decode"], role="native-validation"),
    ],
)

PROPS["C17"] = dict(
    design_ref="DESIGN.md 4 (C17), 8.5",
    stubs=[],
    assumptions=["the closed-form size of a get_peers reply (harness/message.rs reply_len) equals the encoder's output length: "
                 "validated natively against the real encoder on pseudo-random replies (native sanity runs), not by the solver (F24)",
                 "the limits are the code's own constants: handler::MAX_VALUES_V4 / MAX_VALUES_V6, 8 nodes per family (take(8)), 20-byte token"],
    outside=["that handler.rs applies the limits (take(max_values), take(8)) on the reply path - handler.rs is not encodable (F7)",
             "transaction ids longer than 32 bytes (chosen by the requester)", "queries and errors (bounded by their fixed layout)"],
    harnesses=[
        H("c17_get_peers_reply_fits", "message", Q, 300,
          "number of values 0..=cap of the requester's family (family symbolic), nodes 0..=8, nodes6 0..=8, transaction id length 0..=32: all symbolic",
          "pure integer arithmetic over the closed form; no loop", ["handler::MAX_VALUES_V4", "handler::MAX_VALUES_V6"]),
        H("c17_formula_matches_encoder_native", "message", Q, 60,
          "(native only) pseudo-random replies: values 0..=120 of either family, nodes/nodes6 0..=8, token, transaction id 0..=32 bytes",
          "sampling - validates the size formula against Message::encode; does not decide the property", ["Message::encode"],
          role="native-validation"),
        H("c17_handler_get_peers_reply_fits_native", "handler", Q, 60,
          "(native only) the real DhtHandler::handle_incoming with a recording socket: requester family, want, transaction id length 0..=32, "
          "0..=8 contacts per family, 0..=239 stored peers per family pseudo-random",
          "sampling - evidence that the handler applies the limits the solver-decided check reads from the code; does not decide the property",
          ["DhtHandler::handle_incoming (get_peers arm)", "DhtHandler::find_closest_nodes", "AnnounceStorage", "Message::encode"],
          role="native-validation"),
    ],
)

PROPS["C14"] = dict(
    design_ref="DESIGN.md 4 (C14), 8.5",
    stubs=[STUB_FMT],
    assumptions=["torrust-serde-bencode allocates exactly the declared length of a byte-string token before reading it and recurses once "
                 "per nesting level (read from its source, de.rs parse_bytes / deserialize_any); its lexer is context free, so the flat scan of "
                 "check_structure sees the tokens the decoder will see (reference lexer in the harness mirrors parse())"],
    outside=["byte strings longer than 12 bytes for the fully symbolic scan (length and nesting bombs are decided separately up to 21 digits / 40 levels)",
             "the decoder's own behaviour after the pre-check (serde glue between lexer and btdht's visitors), stack use below MAX_DEPTH",
             "the running node's liveness after injection (F6/F7)"],
    harnesses=[
        H("c14_precheck_any_8_bytes", "bencode", Q, 1200, "every byte string of 8 bytes", "unwind 10", ["bencode::check_structure"]),
        H("c14_length_bomb_1_to_2_digits", "bencode", Q, 900, "<1 or 2 symbolic digits>:xxxx", "boundary: declared length vs 4 remaining bytes", ["bencode::check_structure"]),
        H("c14_length_bomb_5_digits", "bencode", Q, 900, "<5 symbolic digits>:xxxx", "5 digits", ["bencode::check_structure"]),
        H("c14_nesting_bomb", "bencode", Q, 900, "runs of 32, 33 and 40 opening markers (concrete executions)", "depth 32 accepted, 33 and 40 rejected", ["bencode::check_structure"]),
        H("c14_precheck_accepts_valid_messages_native", "bencode", Q, 60,
          "(native only) pseudo-random ping / announce_peer / response / error messages: reference encoder == real encoder, pre-check accepts, real decoder gives the message back",
          "sampling - validates that the pre-check loses no valid message and ties the reference encoder to the real codec; does not decide the property",
          ["bencode::check_structure", "Message::encode", "Message::decode"], role="native-validation"),
        H("c14_length_bomb_20_digits", "bencode", Q, 1200, "<20 symbolic digits>:xxxx", "20 digits: every magnitude up to 10^20 > 2^64", ["bencode::check_structure"]),
        H("c14_length_bomb_21_digits", "bencode", T, 3600, "<21 symbolic digits>:", "21 digits", ["bencode::check_structure"]),
        H("c14_precheck_any_12_bytes", "bencode", T, 3000, "every byte string of 12 bytes", "unwind 14", ["bencode::check_structure"]),
        # piece B: btdht's own decoding code on hostile sizes (shared with C13)
        H("c13_nodes_v4_lengths", "compact", Q, 600, "53 symbolic bytes; blob lengths 0,1,25,26,27,38,51,52,53", "lengths enumerated", ["compact::nodes_v4::deserialize"]),
        H("c13_values_element_lengths", "compact", Q, 600, "element lengths 0,5,6,7,17,18,19", "lists <= 2", ["compact::values::deserialize"]),
    ],
)

PROPS["C12"] = dict(
    design_ref="DESIGN.md 4 (C12), 8.5",
    jobs=3,  # the insertion instances need ~15 GB each (heap-backed Vec<Bucket> updated at a symbolic slot)
    stubs=[CLOCK, STUB_RS,
           "RoutingTable.routers: under cfg(kani) the field's type is a 40-line linear-scan set (harness/rt.rs vset, hook in table.rs/bootstrap.rs) "
           "instead of std HashSet<SocketAddr>; set semantics only, validated by c12_router_set_standin_laws"],
    assumptions=["table built directly: 2 buckets, local id 0..0; bucket 0 holds one identity in an arbitrary state (coarse ages) and 7 free slots; "
                 "one name per response; at most one insertion per instance (F21/F22 cost)"],
    outside=["'receiving a query never adds its sender' and the routing of responses by action prefix: handler.rs:193-393 (F7)",
             "node lists longer than 1 name; names that make a bucket split"],
    harnesses=[
        H("c12_add_nodes_fresh_name", "table", Q, 1500, "standing of the stored node symbolic; name = a fresh identity", "one add_nodes; unwind 66", ["RoutingTable::add_nodes", "RoutingTable::add_node", "Bucket::add_node", "Node::as_questionable", "Node::update"]),
        H("c12_find_node_needs_id_and_address", "table", Q, 900, "concrete 2-bucket table with one stored questionable contact; lookups under a foreign address, a foreign id and its own handle",
          "concrete execution inside CBMC (no symbolic input): the clause has no input besides the handles", ["RoutingTable::find_node_mut", "Bucket::pingable_nodes_mut", "Node::remote_request"]),
        H("c12_add_nodes_own_id", "table", Q, 1500, "name = the local id", "one add_nodes", ["RoutingTable::add_nodes", "leading_bit_count"]),
        H("c12_add_nodes_existing_by_hearsay", "table", T, 2500, "name = the stored identity (arbitrary standing, incl. dropped as bad), responder = a fresh identity", "one add_nodes", ["RoutingTable::add_nodes", "Node::update"]),
        H("c12_add_nodes_alias_of_responder", "table", Q, 1500, "name = a fresh id on the responder's own address", "one add_nodes", ["RoutingTable::add_nodes"]),
        H("c12_add_nodes_router_address_named", "table", Q, 1500, "routers = two addresses; name = a fresh id on one of them (symbolic choice); standing of the stored node symbolic",
          "one add_nodes; router set = linear-scan stand-in under cfg(kani) (hook in table.rs)", ["RoutingTable::add_nodes", "RoutingTable::add_node"]),
        H("c12_add_nodes_router_as_responder", "table", Q, 1500, "the responder itself answers from a router address and names a fresh node; standing of the stored node symbolic",
          "one add_nodes", ["RoutingTable::add_nodes", "RoutingTable::add_node"]),
        H("c12_add_nodes_router_ip_other_port", "table", T, 1500, "name = a fresh id on a router's IP with another port (not a router address: must be admitted)",
          "one add_nodes", ["RoutingTable::add_nodes", "RoutingTable::add_node"]),
        H("c12_router_set_standin_laws", "table", Q, 300, "two inserted addresses and a probe address, all IPv4 octets and ports symbolic",
          "2 insertions; capacity 4", ["(environment only) crate::verif::vset::HashSet"], role="environment-validation"),
        H("c19_from_bytes_length_gate", "transaction", Q, 300, "32 symbolic bytes; every prefix length 0..=32", "lengths enumerated", ["TransactionID::from_bytes"]),
    ],
)

STUB_VMAP = ("AnnounceStorage.storage: under cfg(kani) storage.rs's HashMap/Entry are a linear-scan map (harness/rt.rs vmap, hook in storage.rs) "
             "instead of std HashMap (not tractable in CBMC, DESIGN.md F17); map semantics only, no property depends on hashing")

C07_UW = [("loop", r"7storage|4vmap", 5)]  # every loop over the store's vectors / the map stand-in: <= 4 elements

PROPS["C07"] = dict(
    design_ref="DESIGN.md 8.11 (C07)",
    stubs=[CLOCK, STUB_VMAP],
    assumptions=["none beyond the virtual clock being monotonic"],
    outside=["port derivation (port / implied_port) and the requester-family filter: handler.rs:249-305 (F7)",
             "every store operation (add_item / find_items / insert_contact / remove_expired_items): renewal without duplication, the expiry queue's order, "
             "lazy expiry from the queue head, the 500-pair capacity gate - none of the step harnesses written for them terminated within memory "
             "(DESIGN.md F19/F27; sources kept unregistered in harness/storage.rs); seeds C07-R1..R3 are missed for that reason"],
    harnesses=[
        H("c07_expiry_boundary", "storage", Q, 300, "clock start and age of the pair symbolic in [0, 30 h] at 1 ns resolution",
          "one pair", ["ItemExpiration::new", "ItemExpiration::is_expired", "ItemExpiration::eq"]),
    ],
)

# Properties whose harnesses exist but are not (yet) registered: not claimed in MANIFEST.json.
PENDING = set()
