"""Which harnesses decide which property, per tier, and what each one covers.

H(name, module, tiers, timeout_s, inputs, bounds, encodes, extra=None)
  name    - harness function name (globally unique; prefix = property id in lower case)
  module  - Rust module path of the hook the harness lives in
  tiers   - subset of {"quick", "thorough"}
  inputs  - what the solver quantifies over (symbolic inputs), in words
  bounds  - loop unwindings / sizes / event counts; what is enumerated concretely
  encodes - btdht functions under verification in this harness (real code)
"""


class H:
    def __init__(self, name, module, tiers, timeout_s, inputs, bounds, encodes, extra=None, role="property"):
        self.name = name
        self.module = module
        self.tiers = tiers
        self.timeout_s = timeout_s
        self.inputs = inputs
        self.bounds = bounds
        self.encodes = encodes
        self.extra = extra or []
        self.role = role  # property | oracle-validation | environment-validation

    @property
    def full(self):
        return f"{self.module}::verif::{self.name}"


Q = ("quick", "thorough")
T = ("thorough",)

STUB_RANDOM = "rand::random -> arbitrary value of its type from a symbolic generator (crate::verif::stub_random)"
STUB_CRC = ("crc32c::crc32c_append -> bitwise reference CRC-32C (the crate's SSE4.2 intrinsics are not modelled by CBMC); "
            "the real crc32c runs in every native replay")
CLOCK = ("clock: crate::time is replaced under cfg(kani) by a virtual clock (harness/vtime.rs, same API, integer "
         "seconds+nanoseconds); time.rs's own 40 lines of std::time wrapping are not under verification")

PROPS = {}

PROPS["C20"] = dict(
    design_ref="DESIGN.md 4 (C20)",
    stubs=[STUB_RANDOM, STUB_CRC],
    assumptions=["CRC-32C of the `crc32c` crate equals the bitwise reference (checked natively on random buffers by setup/replay, not by the solver)"],
    outside=["the crc32c crate's SSE4.2 code path (trusted; exercised natively in replay/sanity runs only)"],
    harnesses=[
        H("c20_from_ip_v4", "info_hash", Q, 300,
          "all 2^32 IPv4 addresses (4 symbolic octets) x every value of each of the 19 rand::random::<u8>() draws",
          "no bound beyond fixed loop counts; unwind 21",
          ["InfoHash::from_ip"]),
        H("c20_from_ip_v6", "info_hash", Q, 300,
          "all 2^128 IPv6 addresses (16 symbolic octets) x every value of each random draw",
          "no bound beyond fixed loop counts; unwind 21",
          ["InfoHash::from_ip"]),
        H("c20_oracle_accepts_bep42_vectors", "info_hash", Q, 120,
          "the five published BEP42 example ids (symbolic choice) and every single-bit corruption of their first 21 bits",
          "5 vectors x 21 bit positions, decided symbolically",
          ["(oracle only) harness validator bep42_valid + reference CRC-32C"], role="oracle-validation"),
    ],
)

PROPS["C10"] = dict(
    design_ref="DESIGN.md 4 (C10)",
    stubs=[CLOCK],
    assumptions=["events reach a contact only while it is reported (find_node_mut filters on pingable) - mirrored in the harness",
                 "a contact dropped as bad and named again by hearsay starts a new history as questionable (DESIGN.md F12)"],
    outside=["that handler.rs calls remote_request only for known nodes; load_contacts wiring; interleavings across contacts"],
    harnesses=[
        H("c10_history_k4", "node", Q, 900,
          "every history of 4 events per contact, each event symbolic in {answer, hearsay, query received, query sent, wait d} "
          "with d symbolic in [0, 40 min] at 1 ns resolution; first contact as responder or by hearsay; clock start symbolic",
          "k = 4 events (shorter histories included as zero waits); unwind 21 (20-byte id memcmp)",
          ["Node::as_good", "Node::as_questionable", "Node::update", "Node::local_request", "Node::remote_request",
           "Node::status", "Node::is_pingable"]),
        H("c10_fifteen_minute_boundary", "node", Q, 300,
          "time since last answer / last received query symbolic in [14 min, 16 min] at 1 ns resolution",
          "one contact, one wait", ["Node::status", "Node::remote_request"]),
        H("c10_history_k5", "node", T, 3000, "as k4 with 5 events", "k = 5; unwind 21",
          ["Node::update", "Node::local_request", "Node::remote_request", "Node::status"]),
    ],
)

SLOT = ("slot state symbolic: never answered (what status() sees in an empty slot) or answered/queried at symbolic ages, "
        "0..3 unanswered queries; identities concrete and pairwise distinct")
COARSE = "ages from {0, 899, 900, 3600} s"
FINE = "ages every second in [0, 2 h]"


def _c08(name, tiers, tmo, which, fill, offer, ages):
    return H(name, "bucket", tiers, tmo,
             f"slots {which} arbitrary ({SLOT}; {ages}), other slots {fill}; offer symbolic in {{good, questionable, bad}} of {offer}",
             "one Bucket::add_node from an arbitrary state (inductive step, any history length); unwind 21",
             ["Bucket::add_node", "Node::update", "Node::status", "Node::as_good", "Node::as_questionable", "Node::as_bad"])


PROPS["C08"] = dict(
    design_ref="DESIGN.md 4 (C08)",
    stubs=[CLOCK],
    assumptions=["representation invariant of the pre-state: live handles in a bucket are pairwise distinct (re-asserted after the step)",
                 "a free slot is represented either by Bucket::new's placeholder or by a never-answered node with a unique identity "
                 "(add_node treats both alike unless the offered identity equals it); slot occupancy is concrete per harness "
                 "(DESIGN.md F21: CBMC mis-simplifies references into array-of-struct elements at a symbolic index)"],
    outside=["table-level split across more than the modelled buckets (see the table harnesses)"],
    harnesses=[
        _c08("c08_bucket_lo4_ph_fresh", Q, 900, "0..3", "Bucket::new placeholders", "an identity not in the bucket", COARSE),
        _c08("c08_bucket_lo4_ph_repeat2", Q, 900, "0..3", "Bucket::new placeholders", "the identity stored in slot 2", COARSE),
        _c08("c08_bucket_hi4_good_fresh", Q, 900, "4..7", "good nodes", "an identity not in the bucket", COARSE),
        _c08("c08_bucket_hi4_questionable_fresh", Q, 900, "4..7", "questionable nodes", "an identity not in the bucket", COARSE),
        _c08("c08_bucket_lo4_questionable_repeat0", Q, 900, "0..3", "questionable nodes", "the identity stored in slot 0", COARSE),
        _c08("c08_bucket_all8_fresh", T, 3000, "0..7 (all)", "-", "an identity not in the bucket", COARSE),
        _c08("c08_bucket_all8_repeat0", T, 3000, "0..7 (all)", "-", "the identity stored in slot 0", COARSE),
        _c08("c08_bucket_all8_repeat5", T, 3000, "0..7 (all)", "-", "the identity stored in slot 5", COARSE),
        _c08("c08_bucket_all8_repeat7", T, 3000, "0..7 (all)", "-", "the identity stored in slot 7", COARSE),
        _c08("c08_bucket_fine_lo4_ph_fresh", T, 3000, "0..3", "Bucket::new placeholders", "an identity not in the bucket", FINE),
        _c08("c08_bucket_fine_hi4_questionable_fresh", T, 3000, "4..7", "questionable nodes", "an identity not in the bucket", FINE),
        _c08("c08_bucket_fine_lo4_good_repeat1", T, 3000, "0..3", "good nodes", "the identity stored in slot 1", FINE),
    ],
)
