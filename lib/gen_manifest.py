#!/usr/bin/env python3
"""Regenerate /verif/MANIFEST.json from lib/registry.py and the texts below."""
import json
import os
import subprocess
import sys

HERE = os.path.dirname(os.path.abspath(__file__))
VERIF = os.path.dirname(HERE)
sys.path.insert(0, HERE)
from registry import PROPS as _ALL, PENDING  # noqa: E402
PROPS = {k: v for k, v in _ALL.items() if k not in PENDING}

TECHNIQUE = ("bounded model checking of the real code: Kani 0.68 compiles /repo's btdht crate to a CBMC goto program, "
             "inputs/clock/random draws symbolic (kani::any), property = assert!, verdict by CBMC 6.11 + CaDiCaL SAT over all "
             "values within stated unwind/size/event bounds; counterexamples replayed natively before reporting")

CLAIMS = {
    "C20": dict(
        text=("Every IPv4 address (all 2^32) and every IPv6 address, with every value of every internal random draw, is decided "
              "symbolically against an independent BEP42 validator with its own CRC-32C; no bound except fixed loop counts, so "
              "within the engine's trusted base this is complete over the property's whole input domain."),
        note=("Trusted: Kani/CBMC/CaDiCaL; the crc32c crate's SSE4.2 path is replaced by a bitwise reference CRC-32C inside the "
              "solver (the real one runs in native sanity/replay runs); rand::random is an arbitrary value."),
    ),
}

CLAIMS["C10"] = dict(
    text=("Every history of up to 5 (quick) / 6 (thorough) events per contact - answer, hearsay mention, query received, query sent, "
          "wait of any length in [0, 68 min] at nanosecond resolution, from a symbolic clock start - is decided against a reference "
          "log stating what the property allows (good only with an answer/query within 15 min, hearsay-only stays questionable, "
          "two unanswered queries while not good drop the contact, an answer makes it good at once); plus the 15-minute boundary "
          "at 1 ns resolution. Bounded by the event count; node level only."),
    note=("Virtual clock replaces crate::time under cfg(kani); the gate 'events reach only reported contacts' (find_node_mut) is "
          "mirrored in the harness; handler wiring is outside."),
)
CLAIMS["C08"] = dict(
    text=("One Bucket::add_node from an arbitrary bucket state (every slot: never answered / answered and queried at symbolic ages, "
          "0..3 unanswered queries) with an arbitrary offer (good / questionable / bad; fresh identity or one already stored) is "
          "decided against the property's clauses: at most one node lost, only a strictly worse one, none while a free or bad slot "
          "exists, repeat offers update in place, full bucket of equal-or-better nodes rejects and is unchanged, room or a worse "
          "node => admitted, no duplicate. Being an inductive step from any state satisfying the stated invariant it covers "
          "histories of any length at bucket level. Quick: 4 symbolic slots at a time; thorough: all 8 at once. Plus symbolic kernels for the "
          "table's placement arithmetic, and one table-level step without a split: RoutingTable::add_node into a full bucket that cannot split "
          "(7 good nodes + one of arbitrary standing, newcomer good or questionable) behaves exactly like the bucket rule, adds no bucket and keeps "
          "every other node and the placement invariant."),
    note=("Slot identities are concrete and distinct (symbolic standing); occupancy concrete per harness (DESIGN.md F21); virtual "
          "clock. Table level: only the placement arithmetic (bucket_placement, can_split_bucket, leading_bit_count, flip_bit) is decided, "
          "by symbolic kernels, plus one add_node without a split; the split itself (re-adding the 8 nodes, retry) is NOT decided - the split harness was "
          "still in symbolic execution after 25 min even with a pre-sized Vec<Bucket> and a recursion bound on split_bucket (DESIGN.md 8.3/8.5, F28)."),
)

CLAIMS["C06"] = dict(
    text=("Token store level: for every IPv4/IPv6 address, every store age at issue (0..3 h), up to 3 (IPv4; in quick restricted to get_peers from other IPs, all four event kinds in thorough) / 1 (IPv6; 2 in thorough) "
          "interleaved other events at symbolic times and a symbolic final gap (1 ns resolution, symbolic clock start) the solver "
          "decides: accepted whenever younger than 600 s, refused from 1800 s on, refused from any other IP, refused when never "
          "issued or issued by a store with other secrets; Token::new accepts exactly 20 bytes. Bounded by the number of "
          "interleaved events; SHA-1 and the secret draws are idealised as stated."),
    note=("Assumes SHA-1 collision-free (lazy random oracle) and fresh secrets distinct; virtual clock; the handler-side wiring "
          "(source IP passed, storing gated on the result) is outside (handler.rs is not encodable, DESIGN.md F7)."),
)
CLAIMS["C09"] = dict(
    text=("The bucket-index walk behind every nearest-node enumeration is decided completely: one symbolic step proves that the "
          "next index is inside the table, not visited before, and the nearest unvisited one (right before left), for every start "
          "0..=160 and every position; the whole walk from a symbolic start is unrolled to show it ends after exactly 159/160 moves. "
          "Together: every bucket index is visited exactly once, nearest first. The enumeration's set-up over a table (start index = shared "
          "prefix, assorted nodes keyed by their own ideal index, sorted buckets read by index) is decided on a 3-bucket table. Iterating "
          "actual table contents (ClosestNodes::next) and the take(8)/family filter are outside (stated)."),
    note="Loop-free integer kernel + one 161-step unrolling; no stubs. ClosestNodes::next on real tables did not terminate in CBMC (DESIGN.md F20/F23).",
)
CLAIMS["C19"] = dict(
    text=("Generator level: from an arbitrary valid in-block state (any action id, any block, the two ids read arbitrary within a "
          "permutation's guarantees) two consecutive draws differ, are 8 bytes big-endian prefix(5)|message(3), carry the activity's "
          "prefix, and another activity's prefix differs; block regeneration at the first/last block and at the 2^24 / 2^40 wrap yields "
          "exactly the next id range; from_bytes accepts exactly 8 bytes. Quick fixes the position in the block (first/middle/last), "
          "thorough makes it symbolic."),
    note="Shuffle replaced by a nondeterministic permutation under cfg(kani) (hook H2); block fills are concrete executions inside CBMC at 3-5 markers; use of the ids by lookup/refresh/bootstrap is outside.",
)
CLAIMS["C13"] = dict(
    text=("btdht's own decoding code for compact peers and nodes is decided on every boundary length (multiples of 26/38 accepted, "
          "neighbours refused; 6/18-byte peers accepted, 5/7/17/19 refused) with all content bytes symbolic: decoded ids, addresses and "
          "big-endian ports equal the input bytes; compact address encode/decode are inverse for every address and port; the q/a cross-check "
          "(a query is accepted iff its arguments are those of the named method; a message lacking the part its type announces is refused) is "
          "decided over all tag/variant combinations. The whole-text codec (canonical emission, dictionary decoding with reordered / unknown keys) "
          "cannot be brought into the solver (DESIGN.md F8/F14/F24/F26); a native-validation harness samples it and is labelled as such."),
    note="serde in-memory deserializers replace the bencode text parser (not encodable, DESIGN.md F8/F14); lists <= 2 entries.",
)

CLAIMS["C17"] = dict(
    text=("Codec-level only: for every number of values up to the limit the code enforces for the requester's family "
          "(handler::MAX_VALUES_V4 / MAX_VALUES_V6, read from the crate), up to 8 nodes per family, a 20-byte token and every "
          "transaction id length up to 32, the closed-form bencoded size of the get_peers reply is <= 1500 (solver, pure integers). "
          "The closed form itself is validated against the real encoder natively on pseudo-random replies (sampling, stated as such). "
          "That the handler applies these limits on the reply path is NOT decided (handler.rs is outside the engine's reach)."),
    note="Trusted: the size formula (validated natively each run), the handler applying take(max_values)/take(8). The pinned tree had no limit at all (genuine defect, fixed: e406166).",
)
CLAIMS["C14"] = dict(
    text=("Piece A: btdht's structural pre-check (bencode::check_structure, added by the fix for the genuine defect) is decided on every "
          "byte string of 8 (quick) / 12 (thorough) bytes against a reference lexer that mirrors the library's tokenisation: an accepted input never "
          "declares a string longer than the remaining input nor nests deeper than MAX_DEPTH, with no panic, overflow or out-of-bounds; length "
          "prefixes of 1, 2, 5, 20 (and 21 in thorough) symbolic digits (every magnitude up to and beyond 2^64) and 33/40-level nesting bombs are rejected; "
          "canonical encodings of valid messages are accepted. Piece B: btdht's own compact decoders return Ok/Err without panic on every "
          "boundary length. No claim for arbitrary 1500-byte strings through the library's lexer (not encodable, DESIGN.md F8/F14/F20)."),
    note="Trusted: that the bencode library allocates exactly the declared string length and recurses per nesting level (read from its source); Kani's default checks provide no-panic/no-overflow/no-OOB.",
)
CLAIMS["C12"] = dict(
    text=("Table kernel only: one add_nodes(responder, [name]) on a directly built 2-bucket table whose stored contact has an arbitrary "
          "standing: a fresh name and a second id on the responder's address are admitted exactly as questionable, the local id never "
          "appears, nothing else is admitted, a stored contact named by hearsay keeps its standing (thorough), a contact is found only under "
          "its full (id, address) handle; transaction ids are accepted only at 8 bytes. Router-address clause: with two router addresses configured, a "
          "name on either of them (symbolic choice) and a responder answering from one are never admitted, while the node such a responder names and "
          "(thorough) a name on a router's IP with another port are admitted as questionable. The handler-side clauses (queries never add their sender; responses "
          "routed by action prefix) are NOT decided."),
    note=("handler.rs is outside the engine's reach (F7); table built directly with concrete identities (F21); RandomState stubbed with zero keys; "
          "RoutingTable.routers is a linear-scan set under cfg(kani) (hook in table.rs/bootstrap.rs: std HashSet is not tractable, F4/F17), validated "
          "against set semantics by c12_router_set_standin_laws."),
)

CLAIMS["C07"] = dict(
    text=("Kernel level only - the 24-hour rule and pair identity: for every clock start and every age of an announced pair in [0, 30 h] at 1 ns "
          "resolution the pair counts as expired exactly from 24 h on (live strictly before), and a pair's identity is (address, info-hash): the "
          "announce time is not part of it, another info-hash or another address is another pair. NOT decided: every store operation - renewal without "
          "duplication, the expiry queue's order, lazy expiry from the queue head, the 500-pair capacity gate, whole add/find histories. Step "
          "harnesses for them exist (harness/storage.rs) but none terminated within memory even for a one-pair store (DESIGN.md F19/F27), so nothing "
          "is claimed for them; port derivation and the family filter are handler.rs (F7)."),
    note=("storage.rs's HashMap is a linear-scan map under cfg(kani) (hook; std HashMap is not tractable, F17) - not on the path of the registered kernel; "
          "virtual clock replaces crate::time."),
)

NOT_APPLICABLE = {
    "C12": "the table-kernel harnesses (add_nodes on a directly built table) have not terminated within the tier cap yet; the handler-side clauses are out of reach anyway (F7)",
    "C01": "needs >=2 complete nodes (tokio runtime, spawned bootstrap task, UDP, 24 h of timers); a tokio runtime cannot be compiled by Kani (compiler panic on catch_unwind intrinsic) and DhtHandler does not terminate in CBMC (DESIGN.md F6/F7)",
    "C02": "decided by TableLookup's round/end-game state machine over a sorted candidate Vec, three hash containers, a timer and a channel: no formulation of a one-step harness terminated in CBMC (DESIGN.md F13/F17/F18; std HashMap/HashSet and symbolic-extent Vec::insert are intractable, re-confirmed during the build: F23, 8.9); the cheap kernels (pick_* on fixed arrays) do not decide what is announced or yielded",
    "C03": "same code and same obstacle as C02 (transaction-id gate and token bookkeeping live in TableLookup::recv_response / recv_finished over std HashMaps); routing by action prefix is handler.rs (F7)",
    "C04": "needs the same TableLookup steps plus Timer (BTreeMap + tokio Sleep, which cannot be compiled by Kani without a stand-in and did not terminate with one, F18); stream closing is handler.rs (F7)",
    "C05": "every clause is decided inside the async DhtHandler::handle_incoming (one reply, echoed transaction id, read-only mode, family selection, error codes); that function does not terminate in CBMC (F7) and needs a tokio runtime context even to construct the handler (seen again in the native-validation harness, which is sampling and therefore not used to claim this property)",
    "C07": "every AnnounceStorage operation starts with a Vec::drain whose extent depends on the symbolic clock and goes through a std HashMap: the SAT instance exceeded 59 GB after two operations (F19/F17); port derivation and family filter are handler.rs (F7)",
    "C11": "hours of handler + refresh + timer + bootstrap under a runtime (F6/F7); no sequential kernel carries the claim",
    "C15": "the bootstrap task is task::spawn + tokio::time::sleep + select! + watch/Responded futures; none of it compiles under Kani (F6)",
    "C16": "decided by the handler's command path and the bootstrap watch channel, both out of the engine's reach (F6/F7)",
    "C18": "decided by how often handler.rs calls continue_refresh; the callee alone is correct in both a broken and a repaired tree, so a kernel check would decide nothing (F6/F7)",
}


def main():
    commits = subprocess.run(["git", "-C", "/repo", "log", "--format=%H %s", "--grep=^verif hook"],
                             stdout=subprocess.PIPE, text=True).stdout.strip().splitlines()
    checks = []
    for pid in sorted(PROPS):
        c = CLAIMS[pid]
        checks.append({
            "property_id": pid,
            "quick_cmd": f"./check {pid} --tier quick",
            "thorough_cmd": f"./check {pid} --tier thorough",
            "evidence_file": f"/verif/evidence/{pid}.json",
            "replay_cmd_template": f"./check {pid} --replay {{path}}",
            "engine": "kani-cbmc",
            "level_claimed": {"category": "model_checking", "text": c["text"],
                              "design_ref": PROPS[pid].get("design_ref", "DESIGN.md 4")},
            "level_note": c["note"],
            "technique": TECHNIQUE,
        })
    na = []
    pending = json.load(open(os.path.join(HERE, "na_extra.json"))) if os.path.exists(os.path.join(HERE, "na_extra.json")) else {}
    allp = [json.loads(l)["id"] for l in open(os.path.join(VERIF, "properties.jsonl"))]
    for pid in allp:
        if pid in PROPS:
            continue
        reason = NOT_APPLICABLE.get(pid) or pending.get(pid) or "no check registered yet"
        na.append({"property_id": pid, "reason": reason})
    man = {
        "version": 1,
        "setup_cmd": "./setup.sh",
        "hooks": {
            "guard": "cfg(kani)",
            "enable": ("set only by `cargo kani` (and by the native replay build through lib/rustc_wrapper.sh, which passes "
                       "--cfg kani to the btdht crate alone); env BTDHT_VERIF=/verif tells the cfg(kani) include! hooks where the "
                       "harness sources live"),
            "baseline_off_cmd": "cd /repo && cargo test --workspace --no-fail-fast --offline",
            "source_commits": [c.split()[0] for c in commits],
            "add_only": True,
        },
        "engines": [{
            "name": "kani-cbmc", "path": "/verif/check",
            "serves_properties": sorted(PROPS),
            "kind_free_text": "Kani 0.68.0 -> CBMC 6.11.0 -> CaDiCaL; harnesses in /verif/harness included into /repo under cfg(kani); native replay through /verif/shim/kani",
        }],
        "checks": checks,
        "not_applicable": na,
        "notes": ("Exit codes of ./check: 0 held within bounds; 1 VIOLATION (solver counterexample reproduced natively); 2 inconclusive "
                  "(timeout/OOM/harness does not build/non-reproducing counterexample). See DESIGN.md."),
    }
    with open(os.path.join(VERIF, "MANIFEST.json"), "w") as f:
        json.dump(man, f, indent=1)
    print("MANIFEST.json written:", [c["property_id"] for c in checks], "n/a:", [n["property_id"] for n in na])


if __name__ == "__main__":
    main()
