#!/bin/bash
# try_seed.sh <property id> <change.diff> [extra check args]: apply a seeded change to /repo, run the check, undo.
id="$1"; diff="$2"; shift 2
cd /repo && git diff --quiet || { echo "repo dirty"; exit 9; }
git -C /repo apply "$diff" || { echo "apply failed"; exit 9; }
cd /verif && VERIF_NO_SANITY=1 ./check "$id" --no-evidence "$@" 2>&1 | tail -25
rc=${PIPESTATUS[0]}
git -C /repo checkout -- .
echo "SEED-RESULT id=$id diff=$diff exit=$rc"
