"""Native replay of a Kani counterexample against the real build (DESIGN.md 3.6).

The same harness function is compiled by ordinary rustc (cfg(kani) on, so the hooks - virtual
clock, permutation - are active) against a stand-in `kani` crate whose `any()` returns the
recorded values. No stub exists natively: real SHA-1, real crc32c, real `rand`, real HashMap.
"""
import glob
import json
import os
import re
import shutil
import subprocess
import time

from kanirun import VERIF, REPO, BUILD, base_env

SHIM_TARGET = os.path.join(BUILD, "shim")
RUNNER_DIR = os.path.join(BUILD, "replay_runner")
RUNNER_TARGET = os.path.join(BUILD, "replay")
WRAPPER = os.path.join(VERIF, "lib", "rustc_wrapper.sh")


def harness_names():
    names = []
    for f in sorted(glob.glob(os.path.join(VERIF, "harness", "*.rs"))):
        src = open(f).read()
        for m in re.finditer(r"#\[kani::proof\]\s*(?:#\[[^\]]*\]\s*)*(?:pub(?:\([a-z]+\))?\s+)?fn\s+([A-Za-z0-9_]+)", src):
            names.append(m.group(1))
    return names


def _run(cmd, env, cwd=None, timeout=1800):
    p = subprocess.run(cmd, cwd=cwd, env=env, stdout=subprocess.PIPE, stderr=subprocess.STDOUT,
                       text=True, errors="replace", timeout=timeout)
    return p.returncode, p.stdout


def build_shim():
    env = base_env()
    rc, out = _run(["cargo", "build", "--offline", "--manifest-path", os.path.join(VERIF, "shim", "kani", "Cargo.toml"),
                    "--target-dir", SHIM_TARGET], env)
    if rc != 0:
        raise RuntimeError("shim build failed:\n" + out[-3000:])


def write_runner():
    os.makedirs(os.path.join(RUNNER_DIR, "src"), exist_ok=True)
    names = harness_names()
    cargo = f"""[package]
name = "replay_runner"
version = "0.0.0"
edition = "2021"

[dependencies]
btdht = {{ path = "{REPO}" }}

[workspace]
"""
    decls = "\n".join(f"    fn __verif_replay_{n}();" for n in names)
    arms = "\n".join(f'        "{n}" => __verif_replay_{n},' for n in names)
    tmpl = open(os.path.join(VERIF, "lib", "runner_main.rs.tmpl")).read()
    main = tmpl.replace("//DECLS//", decls).replace("//ARMS//", arms)
    _write_if_changed(os.path.join(RUNNER_DIR, "Cargo.toml"), cargo)
    _write_if_changed(os.path.join(RUNNER_DIR, "src", "main.rs"), main)
    lock = os.path.join(REPO, "Cargo.lock")
    if os.path.exists(lock) and not os.path.exists(os.path.join(RUNNER_DIR, "Cargo.lock")):
        shutil.copy(lock, os.path.join(RUNNER_DIR, "Cargo.lock"))


def _write_if_changed(path, text):
    try:
        if open(path).read() == text:
            return
    except OSError:
        pass
    with open(path, "w") as f:
        f.write(text)


def build_runner(release):
    build_shim()
    write_runner()
    env = base_env()
    env["RUSTC_WRAPPER"] = WRAPPER
    env["VERIF_SHIM_DIR"] = os.path.join(SHIM_TARGET, "debug")
    # cargo does not know that btdht was compiled against the shim: force a rebuild when it changed
    rlib = os.path.join(SHIM_TARGET, "debug", "libkani.rlib")
    stamp = os.path.join(RUNNER_TARGET, "shim_stamp_" + ("release" if release else "debug"))
    cur = str(os.path.getmtime(rlib)) if os.path.exists(rlib) else "none"
    try:
        old = open(stamp).read()
    except OSError:
        old = None
    if old != cur:
        clean = ["cargo", "clean", "--offline", "--manifest-path", os.path.join(RUNNER_DIR, "Cargo.toml"),
                 "--target-dir", RUNNER_TARGET, "-p", "btdht", "-p", "replay_runner"]
        if release:
            clean.append("--release")
        _run(clean, env)
    cmd = ["cargo", "build", "--offline", "--manifest-path", os.path.join(RUNNER_DIR, "Cargo.toml"),
           "--target-dir", RUNNER_TARGET]
    if release:
        cmd.append("--release")
    rc, out = _run(cmd, env)
    if rc != 0:
        return None, out
    os.makedirs(RUNNER_TARGET, exist_ok=True)
    with open(stamp, "w") as f:
        f.write(cur)
    return os.path.join(RUNNER_TARGET, "release" if release else "debug", "replay_runner"), out


def write_vector(path, vector):
    with open(path, "w") as f:
        for v in vector:
            f.write(" ".join(str(b) for b in v) + "\n")


def run_native(harness_short, vector, trials=2000, profiles=("debug", "release"), seed=0):
    """Re-execute the harness natively `trials` times per profile: the recorded values first, then
    a seeded pseudo-random tail. Returns dict(reproduced, runs, build_error)."""
    os.makedirs(BUILD, exist_ok=True)
    vec_path = os.path.join(BUILD, f"vector_{os.getpid()}.txt")
    write_vector(vec_path, vector)
    res = {"reproduced": False, "runs": [], "build_error": None}
    for prof in profiles:
        exe, out = build_runner(prof == "release")
        if exe is None:
            res["build_error"] = out[-3000:]
            continue
        env = dict(os.environ)
        env["VERIF_REPLAY_VECTOR"] = vec_path
        env["RUST_BACKTRACE"] = "0"
        run = {"profile": prof, "trials": trials, "passed": 0, "panicked": 0, "not_witness": 0,
               "desync": 0, "first_panic": None, "aborted": False}
        try:
            p = subprocess.run([exe, harness_short, str(trials), str(seed)], env=env, stdout=subprocess.PIPE,
                               stderr=subprocess.STDOUT, text=True, errors="replace", timeout=600)
            m = re.search(r"REPLAY-SUMMARY (\{.*\})", p.stdout)
            if m:
                try:
                    run.update(json.loads(m.group(1)))
                except ValueError:
                    run["first_panic"] = p.stdout[-500:]
            elif p.returncode != 0:
                # abort / stack overflow / OOM kill the whole process: that is a crash of the real code
                run["aborted"] = True
                run["first_panic"] = f"process died with status {p.returncode}: " + p.stdout.strip()[-600:]
        except subprocess.TimeoutExpired:
            run["first_panic"] = "native run timed out"
        res["runs"].append(run)
        if run["panicked"] > 0 or run["aborted"]:
            res["reproduced"] = True
    try:
        os.remove(vec_path)
    except OSError:
        pass
    return res
