#!/bin/bash
# RUSTC_WRAPPER for the native replay build: only the `btdht` crate is compiled with cfg(kani)
# and the stand-in `kani` crate in scope; every dependency is built exactly as usual.
rustc="$1"; shift
if [ "$CARGO_PKG_NAME" = "btdht" ] && [ "$CARGO_CRATE_NAME" = "btdht" ]; then
  exec "$rustc" "$@" --cfg kani --extern "kani=$VERIF_SHIM_DIR/libkani.rlib" -L "dependency=$VERIF_SHIM_DIR/deps" -A warnings
elif [ "$CARGO_PKG_NAME" = "replay_runner" ]; then
  exec "$rustc" "$@" --extern "kani=$VERIF_SHIM_DIR/libkani.rlib" -L "dependency=$VERIF_SHIM_DIR/deps"
else
  exec "$rustc" "$@"
fi
