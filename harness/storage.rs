// C07 — peer store (storage.rs), store level: one operation from a directly constructed store.
//
// The store's map is the linear-scan stand-in of rt.rs under cfg(kani) (hook in storage.rs; std
// HashMap is not tractable, DESIGN.md F17). The expiry queue (`Vec<ItemExpiration>`), the lazy expiry
// from the queue head (`take_while` + `drain`), renewal (`retain` + `push`), the capacity test and
// `ItemExpiration`'s equality are the real code.
//
// Pre-state = representation invariant of the store: the expiry queue is ordered by insertion time
// (symbolic, non-decreasing, ns resolution), every queue entry has exactly one contact in the list
// of its info-hash and vice versa, pairs are distinct. Entries may already be older than 24 h (expiry
// is lazy). One operation at a symbolic later time is decided against the statement: exactly the
// pairs announced within the last 24 hours are returned, each once; re-announcing restarts the 24
// hours without duplicating; expired pairs are gone.
use super::*;
use crate::verif::{clock, concrete_addr_v4, concrete_id};

const DAY: Duration = Duration::from_secs(24 * 60 * 60);
const MAX_GAP_SECS: u64 = 30 * 60 * 60;

fn hash_of(sel: u8) -> InfoHash {
    concrete_id(0x77, sel)
}

/// How instants are chosen: 0 = symbolic (F27: not tractable through the expiry pass), 1..3 = enumerated
/// concretely: 1 = pairs announced 2 h apart, operation 1 h after the last (nothing expired);
/// 2 = operation 25 h after the first announce (exactly the oldest pair expired when n > 1);
/// 3 = operation 30 h after the last announce (everything expired).
static mut TIME_MODE: u8 = 0;

fn time_mode() -> u8 {
    unsafe { TIME_MODE }
}

fn gap_between_announces() {
    if time_mode() == 0 {
        clock::wait_symbolic(MAX_GAP_SECS);
    } else {
        clock::wait(Duration::from_secs(2 * 3600));
    }
}

fn gap_before_operation(n: usize) {
    match time_mode() {
        0 => {
            clock::wait_symbolic(MAX_GAP_SECS);
        }
        1 => clock::wait(Duration::from_secs(3600)),
        2 => clock::wait(Duration::from_secs(25 * 3600 - 2 * 3600 * (n as u64 - 1))),
        _ => clock::wait(Duration::from_secs(30 * 3600)),
    }
}

struct Pre {
    store: AnnounceStorage,
    t: [Duration; 3],
    n: usize,
}

/// `n` pairs (hash_sel[i], address addr_sel[i]) announced at symbolic non-decreasing instants. A pair may
/// have been re-announced before: then its contact-list item still carries the time of its first
/// announce (renewal only replaces the queue entry), an arbitrary amount (<= 30 h) earlier.
fn built_store(n: usize, hash_sel: [u8; 3], addr_sel: [u8; 3], stale: bool) -> Pre {
    if time_mode() == 0 {
        clock::start_symbolic();
    } else {
        clock::start_fixed();
    }
    let mut store = AnnounceStorage::new();
    store.expires = Vec::with_capacity(4);
    let mut t = [Duration::ZERO; 3];
    let mut lists: [Vec<AnnounceItem>; 2] = [Vec::with_capacity(4), Vec::with_capacity(4)];
    let mut i = 0;
    while i < n {
        if i > 0 {
            gap_between_announces();
        }
        t[i] = clock::now();
        let mut item = AnnounceItem::new(hash_of(hash_sel[i]), concrete_addr_v4(addr_sel[i]));
        store.expires.push(item.expiration());
        if stale && kani::any::<bool>() {
            let earlier = if time_mode() == 0 { crate::verif::symbolic_duration(MAX_GAP_SECS) } else { Duration::from_secs(3 * 3600) };
            item.expiration.inserted = item.expiration.inserted - earlier;
        }
        lists[hash_sel[i] as usize].push(item);
        i += 1;
    }
    let [l0, l1] = lists;
    if !l0.is_empty() {
        store.storage.insert(hash_of(0), l0);
    }
    if !l1.is_empty() {
        store.storage.insert(hash_of(1), l1);
    }
    Pre { store, t, n }
}

fn queue_count(store: &AnnounceStorage, addr: SocketAddr, h: InfoHash) -> usize {
    let mut c = 0;
    for e in store.expires.iter() {
        if e.address() == addr && e.info_hash() == h {
            c += 1;
        }
    }
    c
}

fn list_count(store: &AnnounceStorage, addr: SocketAddr, h: InfoHash) -> usize {
    let mut c = 0;
    if let Some(items) = store.storage.get(&h) {
        for it in items.iter() {
            if it.address() == addr {
                c += 1;
            }
        }
    }
    c
}

/// one `find_items` at a symbolic later time
fn find_step(n: usize, hash_sel: [u8; 3], addr_sel: [u8; 3], stale: bool) {
    let mut pre = built_store(n, hash_sel, addr_sel, stale);
    gap_before_operation(n);
    let now = clock::now();
    let which: u8 = kani::any::<u8>() % 2;
    let h = hash_of(which);
    let mut got = [None; 4];
    let mut cnt = 0;
    for a in pre.store.find_items(&h) {
        assert!(cnt < 4, "C07: more peers returned than were ever announced");
        got[cnt] = Some(a);
        cnt += 1;
    }
    let mut expect = 0;
    let mut i = 0;
    while i < n {
        let live = now - pre.t[i] < DAY;
        let mine = hash_sel[i] == which;
        let a = concrete_addr_v4(addr_sel[i]);
        let mut seen = 0;
        let mut k = 0;
        while k < 4 {
            if got[k] == Some(a) {
                seen += 1;
            }
            k += 1;
        }
        if live && mine {
            assert!(seen == 1, "C07: a pair announced within the last 24 hours is not returned exactly once");
            expect += 1;
        } else if mine {
            assert!(seen == 0, "C07: an expired peer is returned");
        }
        // the store itself: expired pairs are gone from queue and lists, live ones are kept once
        let h_i = hash_of(hash_sel[i]);
        assert!(queue_count(&pre.store, a, h_i) == if live { 1 } else { 0 }, "C07: expiry queue keeps an expired pair or loses a live one");
        assert!(list_count(&pre.store, a, h_i) == if live { 1 } else { 0 }, "C07: contact list keeps an expired pair or loses a live one");
        i += 1;
    }
    assert!(cnt == expect, "C07: the number of peers returned differs from the number of live pairs");
    kani::cover!(time_mode() != 0 || (n > 0 && now - pre.t[0] >= DAY && now - pre.t[n - 1] < DAY), "oldest pair expired, newest live");
    kani::cover!(time_mode() != 0 || (n > 0 && now - pre.t[n - 1] >= DAY), "everything expired");
    kani::cover!(time_mode() != 0 || (n > 0 && now - pre.t[0] < DAY), "nothing expired");
    kani::cover!(cnt == expect, "end of harness reached");
    std::mem::forget(pre);
}

/// one `add_item` (renewal of pair x < n, or the new pair n) at a symbolic later time
fn add_step(n: usize, hash_sel: [u8; 3], addr_sel: [u8; 3], x: usize, x_hash: u8, x_addr: u8, stale: bool) {
    let mut pre = built_store(n, hash_sel, addr_sel, stale);
    gap_before_operation(n);
    let now = clock::now();
    let h = hash_of(x_hash);
    let a = concrete_addr_v4(x_addr);
    let ok = pre.store.add_item(h, a);
    assert!(ok, "C07: an announce below the capacity limit is refused");
    // the announced pair: exactly once in queue and list, at the back of the queue, restarted now
    assert!(queue_count(&pre.store, a, h) == 1, "C07: re-announcing duplicates (or loses) the pair in the expiry queue");
    assert!(list_count(&pre.store, a, h) == 1, "C07: re-announcing duplicates (or loses) the pair in the contact list");
    match pre.store.expires.last() {
        Some(e) => {
            assert!(e.address() == a && e.info_hash() == h, "C07: a (re-)announced pair is not the newest entry of the expiry queue");
            assert!(!e.is_expired(crate::time::Instant::now()), "C07: a pair just announced counts as expired");
            // its 24 hours start now: live until now + 24 h - 1 ns, expired from now + 24 h on
            let almost = crate::time::Instant::now() + (DAY - Duration::from_nanos(1));
            let full = crate::time::Instant::now() + DAY;
            assert!(!e.is_expired(almost) && e.is_expired(full), "C07: re-announcing does not restart the pair's 24 hours");
        }
        None => assert!(false, "C07: expiry queue empty after an accepted announce"),
    }
    let mut live_others = 0;
    let mut i = 0;
    while i < n {
        let same_pair = i == x && hash_sel[i] == x_hash && addr_sel[i] == x_addr;
        if !same_pair {
            let live = now - pre.t[i] < DAY;
            let h_i = hash_of(hash_sel[i]);
            let a_i = concrete_addr_v4(addr_sel[i]);
            assert!(queue_count(&pre.store, a_i, h_i) == if live { 1 } else { 0 }, "C07: an announce altered another pair in the expiry queue");
            assert!(list_count(&pre.store, a_i, h_i) == if live { 1 } else { 0 }, "C07: an announce altered another pair in the contact list");
            if live {
                live_others += 1;
            }
        }
        i += 1;
    }
    assert!(pre.store.expires.len() == live_others + 1, "C07: expiry queue length differs from the number of live pairs");
    // queue stays ordered by insertion time (the invariant the lazy expiry relies on)
    let mut prev: Option<crate::time::Instant> = None;
    for e in pre.store.expires.iter() {
        if let Some(p) = prev {
            assert!(p <= e.inserted, "C07: expiry queue no longer ordered by announce time");
        }
        prev = Some(e.inserted);
    }
    kani::cover!(time_mode() != 0 || (x < n && now - pre.t[x] < DAY), "renewal of a live pair");
    kani::cover!(time_mode() != 0 || (n > 0 && now - pre.t[0] >= DAY), "oldest pair expired at the announce");
    kani::cover!(ok, "end of harness reached");
    std::mem::forget(pre);
}

/// pair 1 is (hash 0, address 1), (hash 1, address 1) or (hash 1, address 0 = the address of pair 0)
fn second_pair() -> (u8, u8) {
    match kani::any::<u8>() % 3 {
        0 => (0, 1),
        1 => (1, 1),
        _ => (1, 0),
    }
}

#[kani::proof]
#[kani::unwind(21)]
fn c07_find_step_n2() {
    let (h1, a1) = second_pair();
    find_step(2, [0, h1, 0], [0, a1, 0], true);
}

#[kani::proof]
#[kani::unwind(21)]
fn c07_renew_step_n2() {
    // renew pair 0 (the oldest) or pair 1
    let (h1, a1) = second_pair();
    if kani::any::<bool>() {
        add_step(2, [0, h1, 0], [0, a1, 0], 0, 0, 0, true);
    } else {
        add_step(2, [0, h1, 0], [0, a1, 0], 1, h1, a1, true);
    }
}

#[kani::proof]
#[kani::unwind(21)]
fn c07_add_new_step_n2() {
    // new pair: address 2 under hash 0 or 1
    let (h1, a1) = second_pair();
    add_step(2, [0, h1, 0], [0, a1, 0], 2, kani::any::<u8>() % 2, 2, true);
}

#[kani::proof]
#[kani::unwind(21)]
fn c07_find_step_n1() {
    find_step(1, [0, 0, 0], [0, 0, 0], false);
}

#[kani::proof]
#[kani::unwind(21)]
fn c07_renew_step_n1() {
    add_step(1, [0, 0, 0], [0, 0, 0], 0, 0, 0, false);
}

/// three pairs under one info-hash; the oldest, the middle or the newest is re-announced
#[kani::proof]
#[kani::unwind(21)]
fn c07_renew_step_n3() {
    let x: u8 = kani::any::<u8>() % 3;
    add_step(3, [0, 0, 0], [0, 1, 2], x as usize, 0, x, false);
}

#[kani::proof]
#[kani::unwind(21)]
fn c07_find_step_n3() {
    let (h1, a1) = second_pair();
    find_step(3, [0, h1, 0], [0, a1, 2], true);
}

/// 24-hour boundary at 1 ns resolution: a pair is live strictly less than 24 h after its announce.
#[kani::proof]
#[kani::unwind(21)]
fn c07_expiry_boundary() {
    clock::start_symbolic();
    let e = ItemExpiration::new(hash_of(0), concrete_addr_v4(0));
    let t0 = clock::now();
    clock::wait_symbolic(MAX_GAP_SECS);
    let age = clock::now() - t0;
    assert!(e.is_expired(crate::time::Instant::now()) == (age >= DAY), "C07: a pair does not expire exactly 24 hours after its announce");
    kani::cover!(age == DAY, "exactly 24 h");
    kani::cover!(age + Duration::from_nanos(1) == DAY, "1 ns before 24 h");
    // pair identity = (address, info-hash); the announce time is not part of it
    let e2 = ItemExpiration::new(hash_of(0), concrete_addr_v4(0));
    let e3 = ItemExpiration::new(hash_of(1), concrete_addr_v4(0));
    let e4 = ItemExpiration::new(hash_of(0), concrete_addr_v4(1));
    assert!(e == e2 && e != e3 && e != e4, "C07: pair identity is not (address, info-hash)");
}

// ---------------------------------------------------------------------------------------------
// Kernel level (no expiry pass in the path): `insert_contact`, the function that decides whether an
// announce is a renewal, a new pair, or refused for lack of room.
// ---------------------------------------------------------------------------------------------

/// One stored pair (hash 0, address 0); announce the same pair, the same address under another
/// info-hash, or another address under the same info-hash.
#[kani::proof]
#[kani::unwind(21)]
fn c07_insert_contact_step() {
    clock::start_symbolic();
    let mut store = AnnounceStorage::new();
    let it0 = AnnounceItem::new(hash_of(0), concrete_addr_v4(0));
    let mut q = Vec::with_capacity(2);
    q.push(it0.expiration());
    store.expires = q;
    let mut l = Vec::with_capacity(4);
    l.push(it0);
    store.storage.insert(hash_of(0), l);
    clock::wait_symbolic(MAX_GAP_SECS);
    let which: u8 = kani::any::<u8>() % 3;
    let (h, a) = match which {
        0 => (hash_of(0), concrete_addr_v4(0)),
        1 => (hash_of(1), concrete_addr_v4(0)),
        _ => (hash_of(0), concrete_addr_v4(1)),
    };
    let r = store.insert_contact(AnnounceItem::new(h, a));
    assert!(r == Some(which == 0), "C07: a repeated pair is not recognised as a renewal, or a new pair is taken for one");
    assert!(list_count(&store, concrete_addr_v4(0), hash_of(0)) == 1, "C07: re-announcing duplicates a pair in its contact list (or an announce removes another pair)");
    assert!(list_count(&store, a, h) == 1, "C07: an accepted pair is not listed exactly once under its info-hash");
    assert!(list_count(&store, concrete_addr_v4(1), hash_of(1)) == 0 && list_count(&store, concrete_addr_v4(0), hash_of(1)) == if which == 1 { 1 } else { 0 },
            "C07: a pair appears under an info-hash it was not announced for");
    kani::cover!(which == 1, "same address under another info-hash");
    std::mem::forget(store);
}

/// Capacity gate: with 499 / 500 pairs in the expiry queue (symbolic choice) a new pair is accepted /
/// refused, a stored pair is always accepted as a renewal, and a refusal changes nothing.
#[kani::proof]
#[kani::unwind(21)]
fn c07_capacity_gate() {
    clock::start_fixed();
    let mut store = AnnounceStorage::new();
    let it0 = AnnounceItem::new(hash_of(0), concrete_addr_v4(0));
    let full: bool = kani::any();
    // only the queue's length reaches the gate: the entries behind the first stay unwritten (filling
    // 500 entries of a byte-typed heap object costs > 20 min of symbolic execution, F28) and are
    // never read by insert_contact; the store is forgotten, not dropped, at the end
    let mut q: Vec<ItemExpiration> = Vec::with_capacity(MAX_ITEMS_STORED);
    q.push(it0.expiration());
    unsafe { q.set_len(if full { MAX_ITEMS_STORED } else { MAX_ITEMS_STORED - 1 }) };
    store.expires = q;
    let mut l = Vec::with_capacity(4);
    l.push(it0);
    store.storage.insert(hash_of(0), l);
    let renew: bool = kani::any();
    let (h, a) = if renew { (hash_of(0), concrete_addr_v4(0)) } else { (hash_of(kani::any::<u8>() % 2), concrete_addr_v4(1)) };
    let r = store.insert_contact(AnnounceItem::new(h, a));
    if renew {
        assert!(r == Some(true), "C07: re-announcing a stored pair is refused when the store is full");
    } else if full {
        assert!(r.is_none(), "C07: a new pair is accepted beyond the 500-pair limit");
        assert!(list_count(&store, a, h) == 0, "C07: a refused pair is stored all the same");
    } else {
        assert!(r == Some(false), "C07: a new pair is refused although the store holds fewer than 500 pairs");
        assert!(list_count(&store, a, h) == 1, "C07: an accepted pair is not stored");
    }
    assert!(list_count(&store, concrete_addr_v4(0), hash_of(0)) == 1, "C07: an announce at the capacity limit altered a stored pair");
    assert!(store.expires.len() == if full { MAX_ITEMS_STORED } else { MAX_ITEMS_STORED - 1 }, "C07: the capacity test itself changes the expiry queue");
    kani::cover!(full && !renew, "refusal at the limit");
    kani::cover!(!full && !renew, "last free place taken");
    std::mem::forget(store);
}

// ---------------------------------------------------------------------------------------------
// Structure of renewal / expiry with the instants ENUMERATED (three concrete schedules, see
// TIME_MODE) and the configuration symbolic: which pair is re-announced, whether the second pair
// shares the first one's info-hash or address, whether a pair had been renewed before. The time
// dimension itself is decided by `c07_expiry_boundary`; through the expiry pass it is not tractable
// (F27), so these harnesses state their schedules as enumeration.
// ---------------------------------------------------------------------------------------------

fn renew_any_of_three(mode: u8) {
    unsafe { TIME_MODE = mode };
    let (h1, a1) = second_pair();
    let x: u8 = kani::any::<u8>() % 4;
    let hs = [0, h1, 0];
    let ads = [0, a1, 2];
    if x < 3 {
        add_step(3, hs, ads, x as usize, hs[x as usize], ads[x as usize], true);
    } else {
        // a fourth, new pair: address 3 under either info-hash
        add_step(3, hs, ads, 3, kani::any::<u8>() % 2, 3, true);
    }
}

#[kani::proof]
#[kani::unwind(21)]
fn c07_announce_n3_nothing_expired() {
    renew_any_of_three(1);
}

#[kani::proof]
#[kani::unwind(21)]
fn c07_announce_n3_oldest_expired() {
    renew_any_of_three(2);
}

#[kani::proof]
#[kani::unwind(21)]
fn c07_announce_n3_all_expired() {
    renew_any_of_three(3);
}

fn find_of_three(mode: u8) {
    unsafe { TIME_MODE = mode };
    let (h1, a1) = second_pair();
    find_step(3, [0, h1, 0], [0, a1, 2], true);
}

#[kani::proof]
#[kani::unwind(21)]
fn c07_find_n3_nothing_expired() {
    find_of_three(1);
}

#[kani::proof]
#[kani::unwind(21)]
fn c07_find_n3_oldest_expired() {
    find_of_three(2);
}

#[kani::proof]
#[kani::unwind(21)]
fn c07_find_n3_all_expired() {
    find_of_three(3);
}

// two-pair instances of the enumerated-schedule harnesses (cheaper; quick tier)
fn announce_any_of_two(mode: u8) {
    unsafe { TIME_MODE = mode };
    let (h1, a1) = second_pair();
    let x: u8 = kani::any::<u8>() % 3;
    let hs = [0, h1, 0];
    let ads = [0, a1, 0];
    if x < 2 {
        add_step(2, hs, ads, x as usize, hs[x as usize], ads[x as usize], true);
    } else {
        add_step(2, hs, ads, 2, kani::any::<u8>() % 2, 2, true);
    }
}

#[kani::proof]
#[kani::unwind(21)]
fn c07_announce_n2_nothing_expired() {
    announce_any_of_two(1);
}

#[kani::proof]
#[kani::unwind(21)]
fn c07_announce_n2_oldest_expired() {
    announce_any_of_two(2);
}

#[kani::proof]
#[kani::unwind(21)]
fn c07_find_n2_oldest_expired() {
    unsafe { TIME_MODE = 2 };
    let (h1, a1) = second_pair();
    find_step(2, [0, h1, 0], [0, a1, 0], true);
}
