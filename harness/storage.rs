// harnesses for storage (none yet)
