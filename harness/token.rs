// harnesses for token (none yet)
