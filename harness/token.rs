// C06 — announce tokens: bound to the requester IP, valid >= 10 min, dead by 30 min (store level).
use super::*;
use crate::verif::{clock, oracle_reset, secrets_reset};
use std::net::{IpAddr, Ipv4Addr, Ipv6Addr};
use std::time::Duration;

fn ip_from(v6: bool, bytes: [u8; 16]) -> IpAddr {
    if v6 {
        IpAddr::V6(Ipv6Addr::from(bytes))
    } else {
        IpAddr::V4(Ipv4Addr::new(bytes[0], bytes[1], bytes[2], bytes[3]))
    }
}

fn same_ip(v6: bool, a: &[u8; 16], b: &[u8; 16]) -> bool {
    let n = if v6 { 16 } else { 4 };
    let mut k = 0;
    let mut same = true;
    while k < n {
        if a[k] != b[k] {
            same = false;
        }
        k += 1;
    }
    same
}

/// `extra` other events between issue and check; `who`: what the final check-in presents.
fn lifetime(extra: usize, v6: bool, who: u8) {
    lifetime_kinds(extra, v6, who, 3)
}

/// `max_kind`: interleaved events are drawn from kinds 0..=max_kind (0 nothing, 1 checkout(other ip),
/// 2 checkin(other ip, issued token), 3 checkout(same ip))
fn lifetime_kinds(extra: usize, v6: bool, who: u8, max_kind: u8) {
    // ---- symbolic inputs (all drawn first) ----------------------------------------------------
    let ip_bytes: [u8; 16] = kani::any();
    let other_bytes: [u8; 16] = kani::any();
    let idle_before_s: u64 = kani::any(); // store age when the token is issued
    let gap_s: [u64; 4] = kani::any(); // waits before the extra events (up to 3) and, last, before the final check
    let gap_ns: [u32; 4] = kani::any();
    let ev_kind: [u8; 3] = kani::any(); // 0 nothing, 1 checkout(other ip), 2 checkin(other ip, issued token), 3 checkout(same ip)
    // who: 0 same ip + issued token, 1 other ip + issued token, 2 same ip + never-issued bytes, 3 same ip + token of another store
    let junk: [u8; 20] = kani::any();
    kani::assume(idle_before_s <= 3 * 3600);
    let mut i = 0;
    while i < 4 {
        kani::assume(gap_s[i] <= 3600 && gap_ns[i] < 1_000_000_000);
        i += 1;
    }
    kani::assume(ev_kind[0] <= max_kind && ev_kind[1] <= max_kind && ev_kind[2] <= max_kind);
    kani::assume(!same_ip(v6, &ip_bytes, &other_bytes));
    let ip = ip_from(v6, ip_bytes);
    let other = ip_from(v6, other_bytes);

    oracle_reset();
    secrets_reset();
    clock::start_symbolic();
    let mut store = TokenStore::new();
    let mut store2 = TokenStore::new(); // an independent store (e.g. a previous run of the node)
    clock::wait(Duration::from_secs(idle_before_s));

    let issued_at = clock::now();
    let token = store.checkout(ip);
    let foreign = store2.checkout(ip);

    let mut e = 0;
    while e < extra {
        clock::wait(Duration::new(gap_s[e], gap_ns[e]));
        match ev_kind[e] {
            1 => {
                let _ = store.checkout(other);
            }
            2 => {
                let ok = store.checkin(other, token);
                assert!(!ok, "C06: a token was accepted from a different IP");
            }
            3 => {
                let _ = store.checkout(ip);
            }
            _ => {}
        }
        e += 1;
    }
    clock::wait(Duration::new(gap_s[3], gap_ns[3]));
    let age = clock::now().saturating_sub(issued_at);

    match who {
        0 => {
            let ok = store.checkin(ip, token);
            if age < Duration::from_secs(600) {
                assert!(ok, "C06: a token was refused less than 10 minutes after it was issued");
            }
            if age >= Duration::from_secs(1800) {
                assert!(!ok, "C06: a token was accepted 30 minutes or more after it was issued");
            }
            kani::cover!(ok && age >= Duration::from_secs(1200), "accepted in the second window");
            kani::cover!(!ok && age < Duration::from_secs(1800), "refused before 30 minutes");
        }
        1 => {
            let ok = store.checkin(other, token);
            assert!(!ok, "C06: a token was accepted from a different IP");
        }
        2 => {
            // never issued: differs from what the store would hand this IP under either secret
            let t = Token::from(junk);
            let a = generate_token_from_addr(ip, store.curr_secret);
            let b = generate_token_from_addr(ip, store.last_secret);
            kani::assume(t != token);
            let ok = store.checkin(ip, t);
            // after the check the secrets may have rotated: compare with the post-state ones as well
            let c = generate_token_from_addr(ip, store.curr_secret);
            let d = generate_token_from_addr(ip, store.last_secret);
            if t != a && t != b && t != c && t != d {
                assert!(!ok, "C06: a token the node never issued was accepted");
            }
        }
        _ => {
            let ok = store.checkin(ip, foreign);
            assert!(!ok, "C06: a token issued by a different store (other secrets) was accepted");
        }
    }
    kani::cover!(true, "end reached");
}

#[kani::proof]
#[kani::unwind(21)]
#[kani::stub(rand::random, crate::verif::stub_random_distinct)]
#[kani::stub(crate::info_hash::InfoHash::sha1, crate::verif::stub_sha1)]
fn c06_lifetime_k1_v4() {
    lifetime(1, false, 0);
}

#[kani::proof]
#[kani::unwind(21)]
#[kani::stub(rand::random, crate::verif::stub_random_distinct)]
#[kani::stub(crate::info_hash::InfoHash::sha1, crate::verif::stub_sha1)]
fn c06_lifetime_k1_v6() {
    lifetime(1, true, 0);
}

#[kani::proof]
#[kani::unwind(21)]
#[kani::stub(rand::random, crate::verif::stub_random_distinct)]
#[kani::stub(crate::info_hash::InfoHash::sha1, crate::verif::stub_sha1)]
fn c06_other_ip_k0_v4() {
    lifetime(0, false, 1);
}

#[kani::proof]
#[kani::unwind(21)]
#[kani::stub(rand::random, crate::verif::stub_random_distinct)]
#[kani::stub(crate::info_hash::InfoHash::sha1, crate::verif::stub_sha1)]
fn c06_never_issued_k0_v4() {
    lifetime(0, false, 2);
}

#[kani::proof]
#[kani::unwind(21)]
#[kani::stub(rand::random, crate::verif::stub_random_distinct)]
#[kani::stub(crate::info_hash::InfoHash::sha1, crate::verif::stub_sha1)]
fn c06_foreign_store_k0_v4() {
    lifetime(0, false, 3);
}

#[kani::proof]
#[kani::unwind(21)]
#[kani::stub(rand::random, crate::verif::stub_random_distinct)]
#[kani::stub(crate::info_hash::InfoHash::sha1, crate::verif::stub_sha1)]
fn c06_lifetime_k2_v4() {
    lifetime(2, false, 0);
}

#[kani::proof]
#[kani::unwind(21)]
#[kani::stub(rand::random, crate::verif::stub_random_distinct)]
#[kani::stub(crate::info_hash::InfoHash::sha1, crate::verif::stub_sha1)]
fn c06_lifetime_k2_v6() {
    lifetime(2, true, 0);
}

#[kani::proof]
#[kani::unwind(21)]
#[kani::stub(rand::random, crate::verif::stub_random_distinct)]
#[kani::stub(crate::info_hash::InfoHash::sha1, crate::verif::stub_sha1)]
fn c06_other_ip_k1_v6() {
    lifetime(1, true, 1);
}

#[kani::proof]
#[kani::unwind(21)]
#[kani::stub(rand::random, crate::verif::stub_random_distinct)]
#[kani::stub(crate::info_hash::InfoHash::sha1, crate::verif::stub_sha1)]
fn c06_never_issued_k1_v6() {
    lifetime(1, true, 2);
}

#[kani::proof]
#[kani::unwind(21)]
#[kani::stub(rand::random, crate::verif::stub_random_distinct)]
#[kani::stub(crate::info_hash::InfoHash::sha1, crate::verif::stub_sha1)]
fn c06_foreign_store_k1_v6() {
    lifetime(1, true, 3);
}

#[kani::proof]
#[kani::unwind(21)]
#[kani::stub(rand::random, crate::verif::stub_random_distinct)]
#[kani::stub(crate::info_hash::InfoHash::sha1, crate::verif::stub_sha1)]
fn c06_other_ip_k0_v6() {
    lifetime(0, true, 1);
}

#[kani::proof]
#[kani::unwind(21)]
#[kani::stub(rand::random, crate::verif::stub_random_distinct)]
#[kani::stub(crate::info_hash::InfoHash::sha1, crate::verif::stub_sha1)]
fn c06_lifetime_k3_v4() {
    lifetime(3, false, 0);
}

#[kani::proof]
#[kani::unwind(21)]
#[kani::stub(rand::random, crate::verif::stub_random_distinct)]
#[kani::stub(crate::info_hash::InfoHash::sha1, crate::verif::stub_sha1)]
fn c06_lifetime_k3_v4_steady_traffic() {
    // three interleaved events, each nothing or a get_peers from another IP
    lifetime_kinds(3, false, 0, 1);
}

/// Token::new accepts exactly 20 bytes (each length its own concrete instance, content symbolic).
#[kani::proof]
#[kani::unwind(42)]
fn c06_token_length_gate() {
    let bytes: [u8; 40] = kani::any();
    assert!(Token::new(&bytes[..0]).is_err(), "C06: empty token accepted");
    assert!(Token::new(&bytes[..19]).is_err(), "C06: 19-byte token accepted");
    assert!(Token::new(&bytes[..21]).is_err(), "C06: 21-byte token accepted");
    assert!(Token::new(&bytes[..40]).is_err(), "C06: 40-byte token accepted");
    let t = Token::new(&bytes[..20]);
    assert!(t.is_ok(), "C06: 20-byte token refused");
    let back: [u8; 20] = t.unwrap().into();
    let mut k = 0;
    while k < 20 {
        assert!(back[k] == bytes[k], "C06: token bytes altered");
        k += 1;
    }
    kani::cover!(true, "end of harness reached");
}
