// harnesses for transaction (none yet)
