// C19 — transaction ids: 8 bytes, not reused within an activity before 2^24, activities never
// share the 5-byte prefix (generator level).
use super::*;

/// Arbitrary valid in-block state of a MIDGenerator: any action id, any position in the block;
/// the block's contents are constrained only where the next two draws read them - both inside the
/// block's id range and different from each other, which is what *any permutation* of the block
/// `[next_alloc - LEN, next_alloc)` guarantees (hook H2 replaces the shuffle by a permutation).
fn arbitrary_mid_generator(idx: usize, next_block: u64, action: u64, a: u64, b: u64) -> MIDGenerator {
    let len = MESSAGE_ID_PREALLOC_LEN as u64;
    kani::assume(action < MAX_ACTION_ID);
    kani::assume(idx < MESSAGE_ID_PREALLOC_LEN - 1);
    // block k covers [k*LEN, (k+1)*LEN); the marker after it is (k+1)*LEN <= MAX_MESSAGE_ID
    kani::assume(next_block >= 1 && next_block <= MAX_MESSAGE_ID / len);
    let next_alloc = next_block * len;
    let start = next_alloc - len;
    kani::assume(a >= start && a < next_alloc && b >= start && b < next_alloc && a != b);
    // from the constructor plus field updates (a new field added to the struct does not break this)
    let mut g = MIDGenerator::new(action << MESSAGE_ID_SHIFT);
    g.message_ids[idx] = a;
    g.message_ids[idx + 1] = b;
    g.next_alloc = next_alloc;
    g.curr_index = idx;
    g
}

#[kani::proof]
#[kani::unwind(2)]
fn c19_mid_generate_in_block() {
    let idx: usize = kani::any();
    mid_in_block(idx);
    kani::cover!(true, "end of harness reached");
}

/// Same with the position in the block fixed (first, middle, last pair): much cheaper.
#[kani::proof]
#[kani::unwind(2)]
fn c19_mid_generate_in_block_at_0() {
    mid_in_block(0);
    kani::cover!(true, "end of harness reached");
}

#[kani::proof]
#[kani::unwind(2)]
fn c19_mid_generate_in_block_at_1000() {
    mid_in_block(1000);
    kani::cover!(true, "end of harness reached");
}

#[kani::proof]
#[kani::unwind(2)]
fn c19_mid_generate_in_block_at_last() {
    mid_in_block(MESSAGE_ID_PREALLOC_LEN - 2);
    kani::cover!(true, "end of harness reached");
}

fn mid_in_block(idx: usize) {
    let next_block: u64 = kani::any();
    let action: u64 = kani::any();
    let other_action: u64 = kani::any();
    let a: u64 = kani::any();
    let b: u64 = kani::any();
    let mut g = arbitrary_mid_generator(idx, next_block, action, a, b);
    let t1 = g.generate();
    let t2 = g.generate();
    let b1: [u8; 8] = t1.as_ref().try_into().unwrap();
    let b2: [u8; 8] = t2.as_ref().try_into().unwrap();
    assert!(t1.as_ref().len() == 8 && t2.as_ref().len() == 8, "C19: transaction id is not 8 bytes");
    // big-endian composition: 5-byte action prefix, 3-byte message id
    let v1 = u64::from_be_bytes(b1);
    let v2 = u64::from_be_bytes(b2);
    assert!(v1 != v2, "C19: two consecutive ids of one activity are equal");
    assert!(v1 >> 24 == action && v1 & 0xff_ffff == a, "C19: id is not prefix(5 bytes, big endian) | message id(3 bytes)");
    assert!(t1.action_id() == g.action_id() && t2.action_id() == g.action_id(), "C19: id does not carry its activity's prefix");
    assert!(g.curr_index == idx + 2, "C19: generator position not advanced");
    // an activity with a different action id has a different prefix
    kani::assume(other_action < MAX_ACTION_ID && other_action != action);
    let h = MIDGenerator::new(other_action << MESSAGE_ID_SHIFT);
    assert!(h.action_id() != t1.action_id(), "C19: two activities share the 5-byte prefix");
    // round trip through the wire bytes
    let back = TransactionID::from_bytes(&b1);
    assert!(back.is_some(), "C19: from_bytes refuses an 8-byte id");
    let vb = u64::from_be_bytes(back.unwrap().as_ref().try_into().unwrap());
    assert!(vb == v1, "C19: from_bytes does not restore the id");
    kani::cover!(next_block == MAX_MESSAGE_ID / (MESSAGE_ID_PREALLOC_LEN as u64), "last block before the wrap");
}

/// Block regeneration at a block boundary: the new block is exactly [start, start + LEN) and the
/// marker moves on, wrapping to 0 at 2^24. Concrete markers (DESIGN.md F14): 4 executions,
/// checked through a symbolic probe index.
fn mids_block(marker: u64, exp_start: u64) {
    let (next, ids) = generate_mids(marker);
    let i: usize = kani::any();
    kani::assume(i < MESSAGE_ID_PREALLOC_LEN);
    assert!(ids[i] == exp_start + i as u64, "C19: message id block is not [start, start + LEN)");
    assert!(next == exp_start + MESSAGE_ID_PREALLOC_LEN as u64, "C19: message id marker wrong");
    assert!(ids[i] < MAX_MESSAGE_ID, "C19: message id does not fit 3 bytes");
}

#[kani::proof]
#[kani::unwind(2050)]
fn c19_mid_block_first() {
    mids_block(0, 0);
    kani::cover!(true, "end of harness reached");
}

#[kani::proof]
#[kani::unwind(2050)]
fn c19_mid_block_last() {
    let len = MESSAGE_ID_PREALLOC_LEN as u64;
    mids_block(MAX_MESSAGE_ID - len, MAX_MESSAGE_ID - len);
    kani::cover!(true, "end of harness reached");
}

#[kani::proof]
#[kani::unwind(2050)]
fn c19_mid_block_wrap() {
    mids_block(MAX_MESSAGE_ID, 0);
    kani::cover!(true, "end of harness reached");
}

fn aids_block(marker: u64, exp_start: u64) {
    let (next, ids) = generate_aids(marker);
    let i: usize = kani::any();
    kani::assume(i < ACTION_ID_PREALLOC_LEN);
    assert!(ids[i] == exp_start + i as u64, "C19: action id block is not [start, start + LEN)");
    assert!(next == exp_start + ACTION_ID_PREALLOC_LEN as u64, "C19: action id marker wrong");
    assert!(ids[i] < MAX_ACTION_ID, "C19: action id does not fit 5 bytes");
}

#[kani::proof]
#[kani::unwind(2050)]
fn c19_aid_block_last() {
    let len = ACTION_ID_PREALLOC_LEN as u64;
    aids_block(MAX_ACTION_ID - len, MAX_ACTION_ID - len);
    kani::cover!(true, "end of harness reached");
}

#[kani::proof]
#[kani::unwind(2050)]
fn c19_aid_block_wrap() {
    aids_block(MAX_ACTION_ID, 0);
    kani::cover!(true, "end of harness reached");
}

/// Crossing a block boundary: a generator whose block is used up draws from a fresh block covering
/// the next id range, so the id after the boundary differs from every id of the previous block.
/// `identity`: the shuffle hook is pinned to the identity permutation (quick tier) or left as up to
/// two symbolic transpositions (thorough tier).
fn across_boundary(marker: u64, identity: bool) {
    let action: u64 = kani::any();
    kani::assume(action < MAX_ACTION_ID);
    crate::verif::set_permute_identity(identity);
    let len = MESSAGE_ID_PREALLOC_LEN as u64;
    let mut g = MIDGenerator::new(action << MESSAGE_ID_SHIFT);
    g.next_alloc = marker;
    g.curr_index = MESSAGE_ID_PREALLOC_LEN;
    let t = g.generate();
    crate::verif::set_permute_identity(false);
    let v = u64::from_be_bytes(t.as_ref().try_into().unwrap());
    let start = if marker == MAX_MESSAGE_ID { 0 } else { marker };
    assert!(v >> 24 == action, "C19: prefix lost across a block boundary");
    assert!((v & 0xff_ffff) >= start && (v & 0xff_ffff) < start + len, "C19: id after a block boundary is not from the next id range");
    if identity {
        assert!((v & 0xff_ffff) == start, "C19: first id of a fresh block (identity order) is not the block's first id");
    }
    assert!(g.curr_index == 1 && g.next_alloc == start + len, "C19: generator state wrong after a block boundary");
    kani::cover!(true, "end of harness reached");
}

#[kani::proof]
#[kani::unwind(2050)]
fn c19_mid_across_boundary_new_generator() {
    across_boundary(0, true);
}

#[kani::proof]
#[kani::unwind(2050)]
fn c19_mid_across_boundary_wrap() {
    across_boundary(MAX_MESSAGE_ID, true);
}

#[kani::proof]
#[kani::unwind(2050)]
fn c19_mid_across_boundary_second_block_permuted() {
    across_boundary(MESSAGE_ID_PREALLOC_LEN as u64, false);
}

/// AIDGenerator: two consecutive activities get different prefixes; prefix < 2^40.
#[kani::proof]
#[kani::unwind(2)]
fn c19_aid_generate_in_block() {
    let idx: usize = kani::any();
    aid_in_block(idx);
    kani::cover!(true, "end of harness reached");
}

#[kani::proof]
#[kani::unwind(2)]
fn c19_aid_generate_in_block_at_0() {
    aid_in_block(0);
    kani::cover!(true, "end of harness reached");
}

#[kani::proof]
#[kani::unwind(2)]
fn c19_aid_generate_in_block_at_last() {
    aid_in_block(ACTION_ID_PREALLOC_LEN - 2);
    kani::cover!(true, "end of harness reached");
}

fn aid_in_block(idx: usize) {
    let next_block: u64 = kani::any();
    let a: u64 = kani::any();
    let b: u64 = kani::any();
    let len = ACTION_ID_PREALLOC_LEN as u64;
    kani::assume(idx < ACTION_ID_PREALLOC_LEN - 1);
    kani::assume(next_block >= 1 && next_block <= MAX_ACTION_ID / len);
    let next_alloc = next_block * len;
    let start = next_alloc - len;
    kani::assume(a >= start && a < next_alloc && b >= start && b < next_alloc && a != b);
    let mut ids = [0u64; ACTION_ID_PREALLOC_LEN];
    ids[idx] = a;
    ids[idx + 1] = b;
    let mut g = AIDGenerator {
        next_alloc,
        curr_index: idx,
        action_ids: ids,
    };
    let m1 = g.generate();
    let m2 = g.generate();
    assert!(m1.action_id() != m2.action_id(), "C19: two activities share the 5-byte prefix");
    assert!(m1.action_id == a << MESSAGE_ID_SHIFT && m1.action_id >> MESSAGE_ID_SHIFT < MAX_ACTION_ID, "C19: action prefix does not fit 5 bytes");
    assert!(m1.curr_index == MESSAGE_ID_PREALLOC_LEN && m1.next_alloc == 0, "C19: a new activity does not start with a fresh message id block");
    assert!(g.curr_index == idx + 2, "C19: generator position not advanced");
}

/// TransactionID::from_bytes: Some iff exactly 8 bytes (every length 0..=32, content symbolic).
#[kani::proof]
#[kani::unwind(34)]
fn c19_from_bytes_length_gate() {
    let bytes: [u8; 32] = kani::any();
    let mut n = 0;
    while n <= 32 {
        let r = TransactionID::from_bytes(&bytes[..n]);
        assert!(r.is_some() == (n == 8), "C19: from_bytes accepts a length other than 8");
        n += 1;
    }
    let t = TransactionID::from_bytes(&bytes[..8]).unwrap();
    let mut k = 0;
    while k < 8 {
        assert!(t.as_ref()[k] == bytes[k], "C19: from_bytes alters the bytes");
        k += 1;
    }
    kani::cover!(true, "end of harness reached");
}
