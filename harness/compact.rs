// C13 (layer 2) / C14 (piece B) — btdht's own compact decoding code on every boundary length,
// all content bytes symbolic, driven through serde's in-memory deserializers (the bencode text
// parser is not in the path, DESIGN.md F14).
use super::*;
use crate::node::NodeHandle;
use crate::verif::NoMsg;
use serde::de::value::{BytesDeserializer, SeqDeserializer};
use std::net::SocketAddr;

fn nodes4(blob: &[u8]) -> Result<Vec<NodeHandle>, NoMsg> {
    nodes_v4::deserialize(BytesDeserializer::<NoMsg>::new(blob))
}

fn nodes6(blob: &[u8]) -> Result<Vec<NodeHandle>, NoMsg> {
    nodes_v6::deserialize(BytesDeserializer::<NoMsg>::new(blob))
}

fn check_node_v4(n: &NodeHandle, chunk: &[u8]) {
    let id: [u8; 20] = n.id.into();
    let mut k = 0;
    while k < 20 {
        assert!(id[k] == chunk[k], "C13: compact node id bytes not preserved");
        k += 1;
    }
    match n.addr {
        SocketAddr::V4(a) => {
            let o = a.ip().octets();
            assert!(o[0] == chunk[20] && o[1] == chunk[21] && o[2] == chunk[22] && o[3] == chunk[23],
                "C13: compact IPv4 address bytes not preserved");
            assert!(a.port() == ((chunk[24] as u16) << 8 | chunk[25] as u16), "C13: compact port is not big-endian");
        }
        SocketAddr::V6(_) => assert!(false, "C13: 26-byte compact node decoded as IPv6"),
    }
}

fn check_node_v6(n: &NodeHandle, chunk: &[u8]) {
    let id: [u8; 20] = n.id.into();
    let mut k = 0;
    while k < 20 {
        assert!(id[k] == chunk[k], "C13: compact node id bytes not preserved");
        k += 1;
    }
    match n.addr {
        SocketAddr::V6(a) => {
            let o = a.ip().octets();
            let mut k = 0;
            while k < 16 {
                assert!(o[k] == chunk[20 + k], "C13: compact IPv6 address bytes not preserved");
                k += 1;
            }
            assert!(a.port() == ((chunk[36] as u16) << 8 | chunk[37] as u16), "C13: compact port is not big-endian");
        }
        SocketAddr::V4(_) => assert!(false, "C13: 38-byte compact node decoded as IPv4"),
    }
}

/// nodes (IPv4): every blob length around the 26-byte rule; accepted iff a multiple of 26.
#[kani::proof]
#[kani::unwind(80)]
#[kani::stub(alloc::fmt::format, crate::verif::stub_fmt_format)]
fn c13_nodes_v4_lengths() {
    let blob: [u8; 53] = kani::any();
    assert!(matches!(nodes4(&blob[..0]), Ok(v) if v.is_empty()), "C13: empty nodes blob not decoded as empty list");
    assert!(nodes4(&blob[..1]).is_err(), "C13: 1-byte nodes blob accepted");
    assert!(nodes4(&blob[..25]).is_err(), "C13: 25-byte nodes blob accepted");
    assert!(nodes4(&blob[..27]).is_err(), "C13: 27-byte nodes blob accepted");
    assert!(nodes4(&blob[..38]).is_err(), "C13: 38-byte nodes blob (an IPv6 entry) accepted as IPv4 nodes");
    assert!(nodes4(&blob[..51]).is_err(), "C13: 51-byte nodes blob accepted");
    assert!(nodes4(&blob[..53]).is_err(), "C13: 53-byte nodes blob accepted");
    let one = nodes4(&blob[..26]);
    assert!(one.is_ok(), "C13: 26-byte nodes blob refused");
    let one = one.unwrap();
    assert!(one.len() == 1, "C13: 26-byte nodes blob is not one node");
    check_node_v4(&one[0], &blob[..26]);
    let two = nodes4(&blob[..52]);
    assert!(two.is_ok(), "C13: 52-byte nodes blob refused");
    let two = two.unwrap();
    assert!(two.len() == 2, "C13: 52-byte nodes blob is not two nodes");
    check_node_v4(&two[0], &blob[..26]);
    check_node_v4(&two[1], &blob[26..52]);
    kani::cover!(true, "end of harness reached");
}

/// nodes6 (IPv6): accepted iff a multiple of 38.
#[kani::proof]
#[kani::unwind(80)]
#[kani::stub(alloc::fmt::format, crate::verif::stub_fmt_format)]
fn c13_nodes_v6_lengths() {
    let blob: [u8; 77] = kani::any();
    assert!(matches!(nodes6(&blob[..0]), Ok(v) if v.is_empty()), "C13: empty nodes6 blob not decoded as empty list");
    assert!(nodes6(&blob[..26]).is_err(), "C13: 26-byte nodes6 blob accepted");
    assert!(nodes6(&blob[..37]).is_err(), "C13: 37-byte nodes6 blob accepted");
    assert!(nodes6(&blob[..52]).is_err(), "C13: 52-byte nodes6 blob (two IPv4 entries) accepted as IPv6 nodes");
    assert!(nodes6(&blob[..39]).is_err(), "C13: 39-byte nodes6 blob accepted");
    assert!(nodes6(&blob[..75]).is_err(), "C13: 75-byte nodes6 blob accepted");
    assert!(nodes6(&blob[..77]).is_err(), "C13: 77-byte nodes6 blob accepted");
    let one = nodes6(&blob[..38]);
    assert!(one.is_ok(), "C13: 38-byte nodes6 blob refused");
    let one = one.unwrap();
    assert!(one.len() == 1, "C13: 38-byte nodes6 blob is not one node");
    check_node_v6(&one[0], &blob[..38]);
    let two = nodes6(&blob[..76]);
    assert!(two.is_ok(), "C13: 76-byte nodes6 blob refused");
    let two = two.unwrap();
    assert!(two.len() == 2, "C13: 76-byte nodes6 blob is not two nodes");
    check_node_v6(&two[0], &blob[..38]);
    check_node_v6(&two[1], &blob[38..76]);
    kani::cover!(true, "end of harness reached");
}

fn values_of(elems: Vec<&[u8]>) -> Result<Vec<SocketAddr>, NoMsg> {
    values::deserialize(SeqDeserializer::<_, NoMsg>::new(elems.into_iter()))
}

/// values: each element 6 bytes (IPv4) or 18 bytes (IPv6); any other element length is refused.
#[kani::proof]
#[kani::unwind(40)]
#[kani::stub(alloc::fmt::format, crate::verif::stub_fmt_format)]
fn c13_values_element_lengths() {
    let a: [u8; 19] = kani::any();
    let b: [u8; 19] = kani::any();
    assert!(matches!(values_of(vec![]), Ok(v) if v.is_empty()), "C13: empty values list not decoded as empty");
    assert!(values_of(vec![&a[..0]]).is_err(), "C13: 0-byte peer accepted");
    assert!(values_of(vec![&a[..5]]).is_err(), "C13: 5-byte peer accepted");
    assert!(values_of(vec![&a[..7]]).is_err(), "C13: 7-byte peer accepted");
    assert!(values_of(vec![&a[..17]]).is_err(), "C13: 17-byte peer accepted");
    assert!(values_of(vec![&a[..19]]).is_err(), "C13: 19-byte peer accepted");
    assert!(values_of(vec![&a[..6], &b[..7]]).is_err(), "C13: list with one malformed peer accepted");
    // mixed families, order preserved
    let r = values_of(vec![&a[..6], &b[..18]]);
    assert!(r.is_ok(), "C13: well-formed values refused");
    let r = r.unwrap();
    assert!(r.len() == 2, "C13: values count wrong");
    match r[0] {
        SocketAddr::V4(x) => {
            let o = x.ip().octets();
            assert!(o[0] == a[0] && o[1] == a[1] && o[2] == a[2] && o[3] == a[3], "C13: compact peer IPv4 bytes not preserved");
            assert!(x.port() == ((a[4] as u16) << 8 | a[5] as u16), "C13: compact peer port is not big-endian");
        }
        _ => assert!(false, "C13: 6-byte peer decoded as IPv6"),
    }
    match r[1] {
        SocketAddr::V6(x) => {
            let o = x.ip().octets();
            let mut k = 0;
            while k < 16 {
                assert!(o[k] == b[k], "C13: compact peer IPv6 bytes not preserved");
                k += 1;
            }
            assert!(x.port() == ((b[16] as u16) << 8 | b[17] as u16), "C13: compact peer port is not big-endian");
        }
        _ => assert!(false, "C13: 18-byte peer decoded as IPv4"),
    }
    kani::cover!(true, "end of harness reached");
}

/// encode_socket_addr / decode_socket_addr are inverse for every address and port.
#[kani::proof]
#[kani::unwind(20)]
fn c13_socket_addr_roundtrip() {
    let v6: bool = kani::any();
    let ip: [u8; 16] = kani::any();
    let port: u16 = kani::any();
    let addr: SocketAddr = if v6 {
        (std::net::Ipv6Addr::from(ip), port).into()
    } else {
        (std::net::Ipv4Addr::new(ip[0], ip[1], ip[2], ip[3]), port).into()
    };
    let enc = encode_socket_addr(&addr);
    assert!(enc.len() == if v6 { 18 } else { 6 }, "C13: compact address has the wrong size");
    let n = enc.len();
    assert!(enc[n - 2] == (port >> 8) as u8 && enc[n - 1] == (port & 0xff) as u8, "C13: port not encoded big-endian");
    let mut k = 0;
    while k < n - 2 {
        assert!(enc[k] == ip[k], "C13: address bytes not in network order");
        k += 1;
    }
    assert!(decode_socket_addr(&enc) == Some(addr), "C13: compact address does not round-trip");
    kani::cover!(true, "end of harness reached");
}
