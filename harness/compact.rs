// harnesses for compact (none yet)
