// C13 (layer 1) — canonical encoding: `Message::encode` equals an independent BEP3/5/32 encoder,
// shape by shape (shape concrete, all content bytes symbolic).
// C17 — every reply the code's own limits allow fits the 1500-byte receive buffer.
use super::*;
use crate::node::NodeHandle;
use std::net::{Ipv4Addr, Ipv6Addr, SocketAddr};

// ---------------------------------------------------------------------------------------------
// Independent reference encoder (BEP3 bencoding, BEP5 message layout, BEP32 nodes6/want).
// Dictionary keys are written in sorted order by construction.
// ---------------------------------------------------------------------------------------------

pub(crate) struct Out {
    pub(crate) buf: [u8; 400],
    pub(crate) len: usize,
}

impl Out {
    fn new() -> Self {
        Out { buf: [0; 400], len: 0 }
    }
    fn byte(&mut self, b: u8) {
        self.buf[self.len] = b;
        self.len += 1;
    }
    fn raw(&mut self, s: &[u8]) {
        let mut i = 0;
        while i < s.len() {
            self.byte(s[i]);
            i += 1;
        }
    }
    fn num(&mut self, n: usize) {
        // decimal, no leading zeros
        if n >= 10000 {
            self.byte(b'0' + (n / 10000 % 10) as u8);
        }
        if n >= 1000 {
            self.byte(b'0' + (n / 1000 % 10) as u8);
        }
        if n >= 100 {
            self.byte(b'0' + (n / 100 % 10) as u8);
        }
        if n >= 10 {
            self.byte(b'0' + (n / 10 % 10) as u8);
        }
        self.byte(b'0' + (n % 10) as u8);
    }
    fn bytes(&mut self, s: &[u8]) {
        self.num(s.len());
        self.byte(b':');
        self.raw(s);
    }
    fn int(&mut self, n: usize) {
        self.byte(b'i');
        self.num(n);
        self.byte(b'e');
    }
}

fn ref_addr(out: &mut Out, a: &SocketAddr) {
    match a {
        SocketAddr::V4(a) => out.raw(&a.ip().octets()),
        SocketAddr::V6(a) => out.raw(&a.ip().octets()),
    }
    out.byte((a.port() >> 8) as u8);
    out.byte((a.port() & 0xff) as u8);
}

fn ref_want(out: &mut Out, want: &Option<Want>) {
    if let Some(w) = want {
        out.bytes(b"want");
        out.byte(b'l');
        if matches!(w, Want::V4 | Want::Both) {
            out.bytes(b"n4");
        }
        if matches!(w, Want::V6 | Want::Both) {
            out.bytes(b"n6");
        }
        out.byte(b'e');
    }
}

pub(crate) fn ref_encode(m: &Message) -> Out {
    let mut o = Out::new();
    o.byte(b'd');
    match &m.body {
        MessageBody::Request(r) => {
            o.bytes(b"a");
            o.byte(b'd');
            match r {
                Request::Ping(p) => {
                    o.bytes(b"id");
                    o.bytes(p.id.as_ref());
                }
                Request::FindNode(f) => {
                    o.bytes(b"id");
                    o.bytes(f.id.as_ref());
                    o.bytes(b"target");
                    o.bytes(f.target.as_ref());
                    ref_want(&mut o, &f.want);
                }
                Request::GetPeers(g) => {
                    o.bytes(b"id");
                    o.bytes(g.id.as_ref());
                    o.bytes(b"info_hash");
                    o.bytes(g.info_hash.as_ref());
                    ref_want(&mut o, &g.want);
                }
                Request::AnnouncePeer(a) => {
                    o.bytes(b"id");
                    o.bytes(a.id.as_ref());
                    if a.port.is_none() {
                        o.bytes(b"implied_port");
                        o.int(1);
                    }
                    o.bytes(b"info_hash");
                    o.bytes(a.info_hash.as_ref());
                    o.bytes(b"port");
                    o.int(a.port.unwrap_or(0) as usize);
                    o.bytes(b"token");
                    o.bytes(&a.token);
                }
            }
            o.byte(b'e');
            o.bytes(b"q");
            o.bytes(match r {
                Request::Ping(_) => b"ping" as &[u8],
                Request::FindNode(_) => b"find_node",
                Request::GetPeers(_) => b"get_peers",
                Request::AnnouncePeer(_) => b"announce_peer",
            });
            o.bytes(b"t");
            o.bytes(&m.transaction_id);
            o.bytes(b"y");
            o.bytes(b"q");
        }
        MessageBody::Response(r) => {
            o.bytes(b"r");
            o.byte(b'd');
            o.bytes(b"id");
            o.bytes(r.id.as_ref());
            if !r.nodes_v4.is_empty() {
                o.bytes(b"nodes");
                o.num(r.nodes_v4.len() * 26);
                o.byte(b':');
                for n in &r.nodes_v4 {
                    o.raw(n.id.as_ref());
                    ref_addr(&mut o, &n.addr);
                }
            }
            if !r.nodes_v6.is_empty() {
                o.bytes(b"nodes6");
                o.num(r.nodes_v6.len() * 38);
                o.byte(b':');
                for n in &r.nodes_v6 {
                    o.raw(n.id.as_ref());
                    ref_addr(&mut o, &n.addr);
                }
            }
            if let Some(t) = &r.token {
                o.bytes(b"token");
                o.bytes(t);
            }
            if !r.values.is_empty() {
                o.bytes(b"values");
                o.byte(b'l');
                for v in &r.values {
                    o.num(if v.is_ipv4() { 6 } else { 18 });
                    o.byte(b':');
                    ref_addr(&mut o, v);
                }
                o.byte(b'e');
            }
            o.byte(b'e');
            o.bytes(b"t");
            o.bytes(&m.transaction_id);
            o.bytes(b"y");
            o.bytes(b"r");
        }
        MessageBody::Error(e) => {
            o.bytes(b"e");
            o.byte(b'l');
            o.int(e.code as usize);
            o.bytes(e.message.as_bytes());
            o.byte(b'e');
            o.bytes(b"t");
            o.bytes(&m.transaction_id);
            o.bytes(b"y");
            o.bytes(b"e");
        }
    }
    o.byte(b'e');
    o
}

fn same(enc: &[u8], r: &Out) {
    assert!(enc.len() == r.len, "C13: encoded length differs from the canonical bencoding");
    let mut i = 0;
    while i < r.len {
        assert!(enc[i] == r.buf[i], "C13: encoding differs from the canonical bencoding");
        i += 1;
    }
}

fn any_id() -> NodeId {
    let b: [u8; 20] = kani::any();
    NodeId::from(b)
}

fn any_v4() -> SocketAddr {
    let o: [u8; 4] = kani::any();
    let p: u16 = kani::any();
    SocketAddr::from((Ipv4Addr::from(o), p))
}

fn any_v6() -> SocketAddr {
    let o: [u8; 16] = kani::any();
    let p: u16 = kani::any();
    SocketAddr::from((Ipv6Addr::from(o), p))
}

fn check_encode(m: &Message) {
    let enc = m.encode();
    assert!(enc.is_ok(), "C13: a well-formed message failed to encode");
    let enc = enc.unwrap();
    assert!(enc.len() <= 1500, "C17: encoded message longer than 1500 bytes");
    let r = ref_encode(m);
    same(&enc, &r);
    kani::cover!(true, "end of harness reached");
}

#[kani::proof]
#[kani::unwind(60)]
fn c13_encode_ping() {
    let t: [u8; 2] = kani::any();
    let m = Message {
        transaction_id: t.to_vec(),
        body: MessageBody::Request(Request::Ping(PingRequest { id: any_id() })),
    };
    check_encode(&m);
}

#[kani::proof]
#[kani::unwind(120)]
fn c13_encode_find_node_want_both() {
    let t: [u8; 8] = kani::any();
    let m = Message {
        transaction_id: t.to_vec(),
        body: MessageBody::Request(Request::FindNode(FindNodeRequest {
            id: any_id(),
            target: any_id(),
            want: Some(Want::Both),
        })),
    };
    check_encode(&m);
}

#[kani::proof]
#[kani::unwind(120)]
fn c13_encode_get_peers_want_v6() {
    let t: [u8; 8] = kani::any();
    let m = Message {
        transaction_id: t.to_vec(),
        body: MessageBody::Request(Request::GetPeers(GetPeersRequest {
            id: any_id(),
            info_hash: any_id(),
            want: Some(Want::V6),
        })),
    };
    check_encode(&m);
}

#[kani::proof]
#[kani::unwind(140)]
fn c13_encode_announce_explicit_port() {
    let t: [u8; 8] = kani::any();
    let tok: [u8; 20] = kani::any();
    let port: u16 = kani::any();
    let m = Message {
        transaction_id: t.to_vec(),
        body: MessageBody::Request(Request::AnnouncePeer(AnnouncePeerRequest {
            id: any_id(),
            info_hash: any_id(),
            port: Some(port),
            token: tok.to_vec(),
        })),
    };
    check_encode(&m);
}

#[kani::proof]
#[kani::unwind(140)]
fn c13_encode_announce_implied_port() {
    let t: [u8; 8] = kani::any();
    let tok: [u8; 4] = kani::any();
    let m = Message {
        transaction_id: t.to_vec(),
        body: MessageBody::Request(Request::AnnouncePeer(AnnouncePeerRequest {
            id: any_id(),
            info_hash: any_id(),
            port: None,
            token: tok.to_vec(),
        })),
    };
    check_encode(&m);
}

#[kani::proof]
#[kani::unwind(200)]
fn c13_encode_response_full() {
    let t: [u8; 2] = kani::any();
    let tok: [u8; 20] = kani::any();
    let m = Message {
        transaction_id: t.to_vec(),
        body: MessageBody::Response(Response {
            id: any_id(),
            values: vec![any_v4(), any_v6()],
            nodes_v4: vec![NodeHandle::new(any_id(), any_v4())],
            nodes_v6: vec![NodeHandle::new(any_id(), any_v6())],
            token: Some(tok.to_vec()),
        }),
    };
    check_encode(&m);
}

#[kani::proof]
#[kani::unwind(60)]
fn c13_encode_response_bare() {
    let t: [u8; 0] = [];
    let m = Message {
        transaction_id: t.to_vec(),
        body: MessageBody::Response(Response {
            id: any_id(),
            values: vec![],
            nodes_v4: vec![],
            nodes_v6: vec![],
            token: None,
        }),
    };
    check_encode(&m);
}

#[kani::proof]
#[kani::unwind(60)]
fn c13_encode_error() {
    let t: [u8; 2] = kani::any();
    let code: u8 = kani::any();
    let m = Message {
        transaction_id: t.to_vec(),
        body: MessageBody::Error(Error {
            code,
            message: String::from("abc"),
        }),
    };
    let enc = m.encode();
    assert!(enc.is_ok(), "C13: a well-formed message failed to encode");
    let enc = enc.unwrap();
    // d1:eli<code>e3:abce1:t2:..1:y1:ee
    let mut o = Out::new();
    o.raw(b"d1:eli");
    o.num(code as usize);
    o.raw(b"e3:abce1:t");
    o.bytes(&m.transaction_id);
    o.raw(b"1:y1:ee");
    same(&enc, &o);
    kani::cover!(true, "end of harness reached");
}

// ---------------------------------------------------------------------------------------------
// C17 — size arithmetic. `reply_len` is the closed form of the bencoded size of a get_peers
// response; it is tied to the real encoder by `c13_encode_response_full` (same reference layout)
// and evaluated here at the limits the code itself enforces.
// ---------------------------------------------------------------------------------------------

fn digits(n: usize) -> usize {
    if n >= 1000 {
        4
    } else if n >= 100 {
        3
    } else if n >= 10 {
        2
    } else {
        1
    }
}

fn bstr_len(n: usize) -> usize {
    digits(n) + 1 + n
}

/// size of `d1:rd2:id20:..[5:nodesN:..][6:nodes6N:..][5:token20:..][6:valuesl..e]e1:tN:..1:y1:re`
pub(crate) fn reply_len(values_v4: usize, values_v6: usize, nodes4: usize, nodes6: usize, token: Option<usize>, t: usize) -> usize {
    let mut n = 1 + 3 + 1; // d 1:r d
    n += 4 + bstr_len(20); // 2:id 20:<id>
    if nodes4 > 0 {
        n += 7 + bstr_len(nodes4 * 26);
    }
    if nodes6 > 0 {
        n += 8 + bstr_len(nodes6 * 38);
    }
    if let Some(tl) = token {
        n += 7 + bstr_len(tl);
    }
    if values_v4 + values_v6 > 0 {
        n += 8 + 1 + values_v4 * 8 + values_v6 * 21 + 1;
    }
    n += 1; // e (end of r)
    n += 3 + bstr_len(t); // 1:t N:<t>
    n += 6 + 1; // 1:y1:r e
    n
}

/// Every get_peers reply the handler's limits allow (values capped per requester family by
/// MAX_VALUES_V4 / MAX_VALUES_V6, at most 8 nodes per family, 20-byte token, transaction id of up
/// to 32 bytes) fits 1500 bytes.
#[kani::proof]
fn c17_get_peers_reply_fits() {
    let v: usize = kani::any();
    let requester_v6: bool = kani::any();
    let n4: usize = kani::any();
    let n6: usize = kani::any();
    let t: usize = kani::any();
    let cap = if requester_v6 {
        crate::handler::MAX_VALUES_V6
    } else {
        crate::handler::MAX_VALUES_V4
    };
    kani::assume(v <= cap && n4 <= 8 && n6 <= 8 && t <= 32);
    let len = if requester_v6 {
        reply_len(0, v, n4, n6, Some(20), t)
    } else {
        reply_len(v, 0, n4, n6, Some(20), t)
    };
    assert!(len <= 1500, "C17: a get_peers reply within the code's own limits exceeds 1500 bytes");
    kani::cover!(len > 1400, "a reply near the limit exists");
}

/// The closed form agrees with the reference encoder on a full small shape (and through
/// c13_encode_response_full with the real encoder).
#[kani::proof]
#[kani::unwind(200)]
fn c17_reply_len_formula_matches_reference() {
    let tok: [u8; 20] = kani::any();
    let t: [u8; 2] = kani::any();
    let m = Message {
        transaction_id: t.to_vec(),
        body: MessageBody::Response(Response {
            id: any_id(),
            values: vec![any_v4(), any_v6()],
            nodes_v4: vec![NodeHandle::new(any_id(), any_v4())],
            nodes_v6: vec![NodeHandle::new(any_id(), any_v6())],
            token: Some(tok.to_vec()),
        }),
    };
    let r = ref_encode(&m);
    assert!(r.len == reply_len(1, 1, 1, 1, Some(20), 2), "C17: size formula disagrees with the reference encoder");
    kani::cover!(true, "end of harness reached");
}

// ---------------------------------------------------------------------------------------------
// C13 (layer 2, messages): btdht's Deserialize impls driven by a parsed bencode value
// (crate::verif::Val mirrors how the bencode library calls serde visitors).
// ---------------------------------------------------------------------------------------------

use crate::verif::{NoMsg, Val};
use serde::Deserialize;

fn decode_val(v: Val) -> Result<Message, NoMsg> {
    Message::deserialize(v)
}

/// ping query, keys in canonical order
#[kani::proof]
#[kani::unwind(24)]
#[kani::stub(alloc::fmt::format, crate::verif::stub_fmt_format)]
fn c13_decode_ping_val() {
    let id: [u8; 20] = kani::any();
    let t: [u8; 2] = kani::any();
    let v = Val::Dict(vec![
        (b"a", Val::Dict(vec![(b"id", Val::Bytes(&id))])),
        (b"q", Val::Bytes(b"ping")),
        (b"t", Val::Bytes(&t)),
        (b"y", Val::Bytes(b"q")),
    ]);
    let m = decode_val(v);
    assert!(m.is_ok(), "C13: a well-formed ping is not decoded");
    let m = m.unwrap();
    assert!(m.transaction_id.len() == 2 && m.transaction_id[0] == t[0] && m.transaction_id[1] == t[1], "C13: transaction id altered");
    match m.body {
        MessageBody::Request(Request::Ping(p)) => {
            let got: [u8; 20] = p.id.into();
            let mut k = 0;
            while k < 20 {
                assert!(got[k] == id[k], "C13: ping id altered");
                k += 1;
            }
        }
        _ => assert!(false, "C13: ping decoded as a different message"),
    }
    kani::cover!(true, "end of harness reached");
}
