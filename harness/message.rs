// harnesses for message (none yet)
