// C13 — reference BEP3/5/32 encoder (used by the native-validation harnesses: the real encoder and
// decoder cannot be brought into the solver, DESIGN.md F24/F26) and the q/a cross-check (solver).
// C17 — every reply the code's own limits allow fits the 1500-byte receive buffer.
use super::*;
use crate::node::NodeHandle;
use std::net::{Ipv4Addr, Ipv6Addr, SocketAddr};

// ---------------------------------------------------------------------------------------------
// Independent reference encoder (BEP3 bencoding, BEP5 message layout, BEP32 nodes6/want).
// Dictionary keys are written in sorted order by construction.
// ---------------------------------------------------------------------------------------------

pub(crate) struct Out {
    pub(crate) buf: [u8; 400],
    pub(crate) len: usize,
}

impl Out {
    fn new() -> Self {
        Out { buf: [0; 400], len: 0 }
    }
    fn byte(&mut self, b: u8) {
        self.buf[self.len] = b;
        self.len += 1;
    }
    fn raw(&mut self, s: &[u8]) {
        let mut i = 0;
        while i < s.len() {
            self.byte(s[i]);
            i += 1;
        }
    }
    fn num(&mut self, n: usize) {
        // decimal, no leading zeros
        if n >= 10000 {
            self.byte(b'0' + (n / 10000 % 10) as u8);
        }
        if n >= 1000 {
            self.byte(b'0' + (n / 1000 % 10) as u8);
        }
        if n >= 100 {
            self.byte(b'0' + (n / 100 % 10) as u8);
        }
        if n >= 10 {
            self.byte(b'0' + (n / 10 % 10) as u8);
        }
        self.byte(b'0' + (n % 10) as u8);
    }
    fn bytes(&mut self, s: &[u8]) {
        self.num(s.len());
        self.byte(b':');
        self.raw(s);
    }
    fn int(&mut self, n: usize) {
        self.byte(b'i');
        self.num(n);
        self.byte(b'e');
    }
}

fn ref_addr(out: &mut Out, a: &SocketAddr) {
    match a {
        SocketAddr::V4(a) => out.raw(&a.ip().octets()),
        SocketAddr::V6(a) => out.raw(&a.ip().octets()),
    }
    out.byte((a.port() >> 8) as u8);
    out.byte((a.port() & 0xff) as u8);
}

fn ref_want(out: &mut Out, want: &Option<Want>) {
    if let Some(w) = want {
        out.bytes(b"want");
        out.byte(b'l');
        if matches!(w, Want::V4 | Want::Both) {
            out.bytes(b"n4");
        }
        if matches!(w, Want::V6 | Want::Both) {
            out.bytes(b"n6");
        }
        out.byte(b'e');
    }
}

pub(crate) fn ref_encode(m: &Message) -> Out {
    let mut o = Out::new();
    o.byte(b'd');
    match &m.body {
        MessageBody::Request(r) => {
            o.bytes(b"a");
            o.byte(b'd');
            match r {
                Request::Ping(p) => {
                    o.bytes(b"id");
                    o.bytes(p.id.as_ref());
                }
                Request::FindNode(f) => {
                    o.bytes(b"id");
                    o.bytes(f.id.as_ref());
                    o.bytes(b"target");
                    o.bytes(f.target.as_ref());
                    ref_want(&mut o, &f.want);
                }
                Request::GetPeers(g) => {
                    o.bytes(b"id");
                    o.bytes(g.id.as_ref());
                    o.bytes(b"info_hash");
                    o.bytes(g.info_hash.as_ref());
                    ref_want(&mut o, &g.want);
                }
                Request::AnnouncePeer(a) => {
                    o.bytes(b"id");
                    o.bytes(a.id.as_ref());
                    if a.port.is_none() {
                        o.bytes(b"implied_port");
                        o.int(1);
                    }
                    o.bytes(b"info_hash");
                    o.bytes(a.info_hash.as_ref());
                    o.bytes(b"port");
                    o.int(a.port.unwrap_or(0) as usize);
                    o.bytes(b"token");
                    o.bytes(&a.token);
                }
            }
            o.byte(b'e');
            o.bytes(b"q");
            o.bytes(match r {
                Request::Ping(_) => b"ping" as &[u8],
                Request::FindNode(_) => b"find_node",
                Request::GetPeers(_) => b"get_peers",
                Request::AnnouncePeer(_) => b"announce_peer",
            });
            o.bytes(b"t");
            o.bytes(&m.transaction_id);
            o.bytes(b"y");
            o.bytes(b"q");
        }
        MessageBody::Response(r) => {
            o.bytes(b"r");
            o.byte(b'd');
            o.bytes(b"id");
            o.bytes(r.id.as_ref());
            if !r.nodes_v4.is_empty() {
                o.bytes(b"nodes");
                o.num(r.nodes_v4.len() * 26);
                o.byte(b':');
                for n in &r.nodes_v4 {
                    o.raw(n.id.as_ref());
                    ref_addr(&mut o, &n.addr);
                }
            }
            if !r.nodes_v6.is_empty() {
                o.bytes(b"nodes6");
                o.num(r.nodes_v6.len() * 38);
                o.byte(b':');
                for n in &r.nodes_v6 {
                    o.raw(n.id.as_ref());
                    ref_addr(&mut o, &n.addr);
                }
            }
            if let Some(t) = &r.token {
                o.bytes(b"token");
                o.bytes(t);
            }
            if !r.values.is_empty() {
                o.bytes(b"values");
                o.byte(b'l');
                for v in &r.values {
                    o.num(if v.is_ipv4() { 6 } else { 18 });
                    o.byte(b':');
                    ref_addr(&mut o, v);
                }
                o.byte(b'e');
            }
            o.byte(b'e');
            o.bytes(b"t");
            o.bytes(&m.transaction_id);
            o.bytes(b"y");
            o.bytes(b"r");
        }
        MessageBody::Error(e) => {
            o.bytes(b"e");
            o.byte(b'l');
            o.int(e.code as usize);
            o.bytes(e.message.as_bytes());
            o.byte(b'e');
            o.bytes(b"t");
            o.bytes(&m.transaction_id);
            o.bytes(b"y");
            o.bytes(b"e");
        }
    }
    o.byte(b'e');
    o
}


fn any_id() -> NodeId {
    let b: [u8; 20] = kani::any();
    NodeId::from(b)
}

/// pseudo-random port biased to the boundary values (native generators: 0 must not have probability 2^-16)
fn any_port() -> u16 {
    match kani::any::<u8>() % 5 {
        0 => 0,
        1 => 65535,
        2 => 1,
        _ => kani::any::<u16>(),
    }
}

fn any_v4() -> SocketAddr {
    let o: [u8; 4] = kani::any();
    SocketAddr::from((Ipv4Addr::from(o), any_port()))
}

fn any_v6() -> SocketAddr {
    let o: [u8; 16] = kani::any();
    SocketAddr::from((Ipv6Addr::from(o), any_port()))
}


// ---------------------------------------------------------------------------------------------
// C17 — size arithmetic. `reply_len` is the closed form of the bencoded size of a get_peers
// response; it is tied to the real encoder by `c13_encode_response_full` (same reference layout)
// and evaluated here at the limits the code itself enforces.
// ---------------------------------------------------------------------------------------------

fn digits(n: usize) -> usize {
    if n >= 1000 {
        4
    } else if n >= 100 {
        3
    } else if n >= 10 {
        2
    } else {
        1
    }
}

fn bstr_len(n: usize) -> usize {
    digits(n) + 1 + n
}

/// size of `d1:rd2:id20:..[5:nodesN:..][6:nodes6N:..][5:token20:..][6:valuesl..e]e1:tN:..1:y1:re`
pub(crate) fn reply_len(values_v4: usize, values_v6: usize, nodes4: usize, nodes6: usize, token: Option<usize>, t: usize) -> usize {
    let mut n = 1 + 3 + 1; // d 1:r d
    n += 4 + bstr_len(20); // 2:id 20:<id>
    if nodes4 > 0 {
        n += 7 + bstr_len(nodes4 * 26);
    }
    if nodes6 > 0 {
        n += 8 + bstr_len(nodes6 * 38);
    }
    if let Some(tl) = token {
        n += 7 + bstr_len(tl);
    }
    if values_v4 + values_v6 > 0 {
        n += 8 + 1 + values_v4 * 8 + values_v6 * 21 + 1;
    }
    n += 1; // e (end of r)
    n += 3 + bstr_len(t); // 1:t N:<t>
    n += 6 + 1; // 1:y1:r e
    n
}

/// Every get_peers reply the handler's limits allow (values capped per requester family by
/// MAX_VALUES_V4 / MAX_VALUES_V6, at most 8 nodes per family, 20-byte token, transaction id of up
/// to 32 bytes) fits 1500 bytes.
#[kani::proof]
fn c17_get_peers_reply_fits() {
    let v: usize = kani::any();
    let requester_v6: bool = kani::any();
    let n4: usize = kani::any();
    let n6: usize = kani::any();
    let t: usize = kani::any();
    let cap = if requester_v6 {
        crate::handler::MAX_VALUES_V6
    } else {
        crate::handler::MAX_VALUES_V4
    };
    kani::assume(v <= cap && n4 <= 8 && n6 <= 8 && t <= 32);
    let len = if requester_v6 {
        reply_len(0, v, n4, n6, Some(20), t)
    } else {
        reply_len(v, 0, n4, n6, Some(20), t)
    };
    assert!(len <= 1500, "C17: a get_peers reply within the code's own limits exceeds 1500 bytes");
    kani::cover!(len > 1400, "a reply near the limit exists");
}


// (Harnesses that drove `Message::deserialize` and the hand-written visitors through a structural
// stand-in for the bencode parser did not terminate - DESIGN.md F26 - and were removed.)


/// NATIVE ONLY (role native-validation in lib/registry.py; never given to the solver, F24):
/// pseudo-random get_peers replies through the real encoder. Validates the size formula
/// `reply_len` and, for replies within the code's own limits, checks the 1500-byte bound directly.
#[kani::proof]
fn c17_formula_matches_encoder_native() {
    let v6: bool = kani::any();
    let nv: usize = (kani::any::<u8>() % 121) as usize;
    let n4: usize = (kani::any::<u8>() % 9) as usize;
    let n6: usize = (kani::any::<u8>() % 9) as usize;
    let tl: usize = (kani::any::<u8>() % 33) as usize;
    let has_token: bool = kani::any();
    let mut values = Vec::new();
    for _ in 0..nv {
        values.push(if v6 { any_v6() } else { any_v4() });
    }
    let mut nodes_v4 = Vec::new();
    for _ in 0..n4 {
        nodes_v4.push(NodeHandle::new(any_id(), any_v4()));
    }
    let mut nodes_v6 = Vec::new();
    for _ in 0..n6 {
        nodes_v6.push(NodeHandle::new(any_id(), any_v6()));
    }
    let mut t = Vec::new();
    for _ in 0..tl {
        t.push(kani::any::<u8>());
    }
    let tok: [u8; 20] = kani::any();
    let m = Message {
        transaction_id: t,
        body: MessageBody::Response(Response {
            id: any_id(),
            values,
            nodes_v4,
            nodes_v6,
            token: if has_token { Some(tok.to_vec()) } else { None },
        }),
    };
    let len = m.encode().expect("encodes").len();
    let (a, b) = if v6 { (0, nv) } else { (nv, 0) };
    assert!(len == reply_len(a, b, n4, n6, if has_token { Some(20) } else { None }, tl), "model: size formula disagrees with the real encoder");
    let cap = if v6 { crate::handler::MAX_VALUES_V6 } else { crate::handler::MAX_VALUES_V4 };
    if nv <= cap {
        assert!(len <= 1500, "C17: a get_peers reply within the code's own limits exceeds 1500 bytes");
    }
}

// ---------------------------------------------------------------------------------------------
// NATIVE ONLY (role native-validation): the whole-text codec, which the solver cannot reach
// (bencode text parser and emitter, DESIGN.md F8/F14/F24/F26). Pseudo-random messages of every kind:
// real encoder == reference encoder, decode(encode(m)) == m, and decoding is insensitive to key
// order and to keys unknown to BEP5/32 at both dictionary levels.
// ---------------------------------------------------------------------------------------------

fn nat_bytes(n: usize) -> Vec<u8> {
    let mut v = Vec::new();
    for _ in 0..n {
        v.push(kani::any::<u8>());
    }
    v
}

fn nat_message() -> Message {
    let t = nat_bytes((kani::any::<u8>() % 33) as usize);
    let want = match kani::any::<u8>() % 4 {
        0 => None,
        1 => Some(Want::V4),
        2 => Some(Want::V6),
        _ => Some(Want::Both),
    };
    let body = match kani::any::<u8>() % 7 {
        0 => MessageBody::Request(Request::Ping(PingRequest { id: any_id() })),
        1 => MessageBody::Request(Request::FindNode(FindNodeRequest { id: any_id(), target: any_id(), want })),
        2 => MessageBody::Request(Request::GetPeers(GetPeersRequest { id: any_id(), info_hash: any_id(), want })),
        3 => MessageBody::Request(Request::AnnouncePeer(AnnouncePeerRequest {
            id: any_id(),
            info_hash: any_id(),
            port: match kani::any::<u8>() % 5 {
                0 => None,
                1 => Some(0), // boundary values are drawn often, not with probability 2^-16
                2 => Some(65535),
                3 => Some(1),
                _ => Some(kani::any::<u16>()),
            },
            token: nat_bytes((kani::any::<u8>() % 24) as usize),
        })),
        4 | 5 => {
            let mut values = Vec::new();
            for _ in 0..(kani::any::<u8>() % 6) {
                values.push(if kani::any::<bool>() { any_v4() } else { any_v6() });
            }
            let mut nodes_v4 = Vec::new();
            for _ in 0..(kani::any::<u8>() % 9) {
                nodes_v4.push(NodeHandle::new(any_id(), any_v4()));
            }
            let mut nodes_v6 = Vec::new();
            for _ in 0..(kani::any::<u8>() % 9) {
                nodes_v6.push(NodeHandle::new(any_id(), any_v6()));
            }
            MessageBody::Response(Response {
                id: any_id(),
                values,
                nodes_v4,
                nodes_v6,
                token: if kani::any::<bool>() { Some(nat_bytes((kani::any::<u8>() % 24) as usize)) } else { None },
            })
        }
        _ => MessageBody::Error(Error { code: kani::any::<u8>(), message: String::from(if kani::any::<bool>() { "" } else { "A Generic Error Ocurred" }) }),
    };
    Message { transaction_id: t, body }
}

/// dictionary with `extra` unknown keys mixed in and the entries rotated by `rot` (not sorted)
fn nat_dict(mut entries: Vec<(Vec<u8>, Vec<u8>)>, rot: usize) -> Vec<u8> {
    entries.push((b"v".to_vec(), b"4:UT\x01\x02".to_vec()));
    entries.push((b"ip".to_vec(), b"6:\x01\x02\x03\x04\x05\x06".to_vec()));
    entries.push((b"ro".to_vec(), b"i1e".to_vec()));
    entries.push((b"noseed".to_vec(), b"i0e".to_vec()));
    entries.push((b"scrape".to_vec(), b"li1ei2ee".to_vec()));
    entries.push((b"name".to_vec(), b"d1:x1:ye".to_vec()));
    let n = entries.len();
    entries.rotate_left(rot % n);
    let mut out = vec![b'd'];
    for (k, v) in entries {
        out.extend(format!("{}:", k.len()).into_bytes());
        out.extend(k);
        out.extend(v);
    }
    out.push(b'e');
    out
}

fn nat_bstr(b: &[u8]) -> Vec<u8> {
    let mut out = format!("{}:", b.len()).into_bytes();
    out.extend(b);
    out
}

#[kani::proof]
fn c13_codec_roundtrip_native() {
    let m = nat_message();
    let enc = m.encode().expect("model: a well-formed message failed to encode");
    if enc.len() <= 400 {
        let r = ref_encode(&m);
        assert!(enc.len() == r.len && enc[..] == r.buf[..r.len], "C13: encoding differs from the canonical bencoding");
    }
    match Message::decode(&enc) {
        Ok(d) => assert!(d == m, "C13: decoding the canonical encoding gives a different message"),
        Err(_) => panic!("C13: the canonical encoding of a well-formed message is not decoded"),
    }
    // reordered keys + unknown keys at both levels (queries: `a`; responses: `r`)
    let rot1 = kani::any::<u8>() as usize;
    let rot2 = kani::any::<u8>() as usize;
    let t = nat_bstr(&m.transaction_id);
    let text = match &m.body {
        MessageBody::Request(Request::FindNode(f)) => {
            let mut a = vec![(b"id".to_vec(), nat_bstr(f.id.as_ref())), (b"target".to_vec(), nat_bstr(f.target.as_ref()))];
            if let Some(w) = f.want {
                a.push((b"want".to_vec(), match w { Want::V4 => b"l2:n4e".to_vec(), Want::V6 => b"l2:n6e".to_vec(), Want::Both => b"l2:n62:n4e".to_vec() }));
            }
            Some(nat_dict(vec![(b"a".to_vec(), nat_dict(a, rot2)), (b"q".to_vec(), b"9:find_node".to_vec()), (b"t".to_vec(), t), (b"y".to_vec(), b"1:q".to_vec())], rot1))
        }
        MessageBody::Request(Request::Ping(p)) => {
            Some(nat_dict(vec![(b"a".to_vec(), nat_dict(vec![(b"id".to_vec(), nat_bstr(p.id.as_ref()))], rot2)), (b"q".to_vec(), b"4:ping".to_vec()), (b"t".to_vec(), t), (b"y".to_vec(), b"1:q".to_vec())], rot1))
        }
        MessageBody::Response(r) if r.values.is_empty() && r.nodes_v4.is_empty() && r.nodes_v6.is_empty() => {
            let mut e = vec![(b"id".to_vec(), nat_bstr(r.id.as_ref()))];
            if let Some(tok) = &r.token {
                e.push((b"token".to_vec(), nat_bstr(tok)));
            }
            Some(nat_dict(vec![(b"r".to_vec(), nat_dict(e, rot2)), (b"t".to_vec(), t), (b"y".to_vec(), b"1:r".to_vec())], rot1))
        }
        _ => None,
    };
    if let Some(text) = text {
        match Message::decode(&text) {
            Ok(d) => assert!(d == m, "C13: reordered / unknown keys change the decoded message"),
            Err(_) => panic!("C13: a message with reordered / unknown keys is not decoded"),
        }
    }
}

// ---------------------------------------------------------------------------------------------
// C13 (solver): the part of message decoding that is btdht's own code and small enough for the
// solver: the q/a cross-check and the missing-part checks of `TryFrom<RawMessage>`.
// ---------------------------------------------------------------------------------------------

/// A query is accepted iff its arguments are those of the named method; messages lacking the part
/// their type announces are refused. Type tag, method tag and argument variant are symbolic.
#[kani::proof]
#[kani::unwind(24)]
fn c13_raw_message_cross_check() {
    let id: [u8; 20] = kani::any();
    let other: [u8; 20] = kani::any();
    let t: [u8; 2] = kani::any();
    let tok: [u8; 4] = kani::any();
    let y: u8 = kani::any::<u8>() % 3;
    let q: u8 = kani::any::<u8>() % 5; // 4 = absent
    let a: u8 = kani::any::<u8>() % 5; // 4 = absent
    let has_r: bool = kani::any();
    let has_e: bool = kani::any();
    let request = match a {
        0 => Some(Request::Ping(PingRequest { id: id.into() })),
        1 => Some(Request::FindNode(FindNodeRequest { id: id.into(), target: other.into(), want: None })),
        2 => Some(Request::GetPeers(GetPeersRequest { id: id.into(), info_hash: other.into(), want: Some(Want::V6) })),
        3 => Some(Request::AnnouncePeer(AnnouncePeerRequest { id: id.into(), info_hash: other.into(), port: None, token: tok.to_vec() })),
        _ => None,
    };
    let raw = RawMessage {
        transaction_id: Cow::Borrowed(&t[..]),
        message_type: match y {
            0 => RawMessageType::Request,
            1 => RawMessageType::Response,
            _ => RawMessageType::Error,
        },
        request_type: match q {
            0 => Some(RawRequestType::Ping),
            1 => Some(RawRequestType::FindNode),
            2 => Some(RawRequestType::GetPeers),
            3 => Some(RawRequestType::AnnouncePeer),
            _ => None,
        },
        request: request.map(Cow::Owned),
        response: if has_r {
            Some(Cow::Owned(Response { id: id.into(), values: vec![], nodes_v4: vec![], nodes_v6: vec![], token: None }))
        } else {
            None
        },
        error: if has_e { Some(Cow::Owned(Error { code: 201, message: String::new() })) } else { None },
    };
    let r = Message::try_from(raw);
    let expect_ok = match y {
        0 => q < 4 && a < 4 && q == a,
        1 => has_r,
        _ => has_e,
    };
    assert!(r.is_ok() == expect_ok, "C13: q/a cross-check or missing-part check decides wrongly");
    if let Ok(m) = r {
        assert!(m.transaction_id.len() == 2 && m.transaction_id[0] == t[0] && m.transaction_id[1] == t[1], "C13: transaction id altered");
        match (&m.body, y) {
            (MessageBody::Request(req), 0) => {
                let kind = match req {
                    Request::Ping(_) => 0,
                    Request::FindNode(_) => 1,
                    Request::GetPeers(_) => 2,
                    Request::AnnouncePeer(_) => 3,
                };
                assert!(kind == q, "C13: decoded query kind differs from the named method");
            }
            (MessageBody::Response(_), 1) | (MessageBody::Error(_), 2) => {}
            _ => assert!(false, "C13: message type changed while decoding"),
        }
    }
    kani::cover!(y == 0 && q == 3 && a == 3, "announce_peer accepted");
    kani::cover!(y == 0 && q != a && q < 4 && a < 4, "mismatch rejected");
}


// (A harness for the `want` list visitor through serde's SeqDeserializer did not terminate in 25 min
// - String allocation per element - and was removed; the native-validation run covers it by sampling.)
