// C13 (layer 1) — canonical encoding: `Message::encode` equals an independent BEP3/5/32 encoder,
// shape by shape (shape concrete, all content bytes symbolic).
// C17 — every reply the code's own limits allow fits the 1500-byte receive buffer.
use super::*;
use crate::node::NodeHandle;
use std::net::{Ipv4Addr, Ipv6Addr, SocketAddr};

// ---------------------------------------------------------------------------------------------
// Independent reference encoder (BEP3 bencoding, BEP5 message layout, BEP32 nodes6/want).
// Dictionary keys are written in sorted order by construction.
// ---------------------------------------------------------------------------------------------

pub(crate) struct Out {
    pub(crate) buf: [u8; 400],
    pub(crate) len: usize,
}

impl Out {
    fn new() -> Self {
        Out { buf: [0; 400], len: 0 }
    }
    fn byte(&mut self, b: u8) {
        self.buf[self.len] = b;
        self.len += 1;
    }
    fn raw(&mut self, s: &[u8]) {
        let mut i = 0;
        while i < s.len() {
            self.byte(s[i]);
            i += 1;
        }
    }
    fn num(&mut self, n: usize) {
        // decimal, no leading zeros
        if n >= 10000 {
            self.byte(b'0' + (n / 10000 % 10) as u8);
        }
        if n >= 1000 {
            self.byte(b'0' + (n / 1000 % 10) as u8);
        }
        if n >= 100 {
            self.byte(b'0' + (n / 100 % 10) as u8);
        }
        if n >= 10 {
            self.byte(b'0' + (n / 10 % 10) as u8);
        }
        self.byte(b'0' + (n % 10) as u8);
    }
    fn bytes(&mut self, s: &[u8]) {
        self.num(s.len());
        self.byte(b':');
        self.raw(s);
    }
    fn int(&mut self, n: usize) {
        self.byte(b'i');
        self.num(n);
        self.byte(b'e');
    }
}

fn ref_addr(out: &mut Out, a: &SocketAddr) {
    match a {
        SocketAddr::V4(a) => out.raw(&a.ip().octets()),
        SocketAddr::V6(a) => out.raw(&a.ip().octets()),
    }
    out.byte((a.port() >> 8) as u8);
    out.byte((a.port() & 0xff) as u8);
}

fn ref_want(out: &mut Out, want: &Option<Want>) {
    if let Some(w) = want {
        out.bytes(b"want");
        out.byte(b'l');
        if matches!(w, Want::V4 | Want::Both) {
            out.bytes(b"n4");
        }
        if matches!(w, Want::V6 | Want::Both) {
            out.bytes(b"n6");
        }
        out.byte(b'e');
    }
}

pub(crate) fn ref_encode(m: &Message) -> Out {
    let mut o = Out::new();
    o.byte(b'd');
    match &m.body {
        MessageBody::Request(r) => {
            o.bytes(b"a");
            o.byte(b'd');
            match r {
                Request::Ping(p) => {
                    o.bytes(b"id");
                    o.bytes(p.id.as_ref());
                }
                Request::FindNode(f) => {
                    o.bytes(b"id");
                    o.bytes(f.id.as_ref());
                    o.bytes(b"target");
                    o.bytes(f.target.as_ref());
                    ref_want(&mut o, &f.want);
                }
                Request::GetPeers(g) => {
                    o.bytes(b"id");
                    o.bytes(g.id.as_ref());
                    o.bytes(b"info_hash");
                    o.bytes(g.info_hash.as_ref());
                    ref_want(&mut o, &g.want);
                }
                Request::AnnouncePeer(a) => {
                    o.bytes(b"id");
                    o.bytes(a.id.as_ref());
                    if a.port.is_none() {
                        o.bytes(b"implied_port");
                        o.int(1);
                    }
                    o.bytes(b"info_hash");
                    o.bytes(a.info_hash.as_ref());
                    o.bytes(b"port");
                    o.int(a.port.unwrap_or(0) as usize);
                    o.bytes(b"token");
                    o.bytes(&a.token);
                }
            }
            o.byte(b'e');
            o.bytes(b"q");
            o.bytes(match r {
                Request::Ping(_) => b"ping" as &[u8],
                Request::FindNode(_) => b"find_node",
                Request::GetPeers(_) => b"get_peers",
                Request::AnnouncePeer(_) => b"announce_peer",
            });
            o.bytes(b"t");
            o.bytes(&m.transaction_id);
            o.bytes(b"y");
            o.bytes(b"q");
        }
        MessageBody::Response(r) => {
            o.bytes(b"r");
            o.byte(b'd');
            o.bytes(b"id");
            o.bytes(r.id.as_ref());
            if !r.nodes_v4.is_empty() {
                o.bytes(b"nodes");
                o.num(r.nodes_v4.len() * 26);
                o.byte(b':');
                for n in &r.nodes_v4 {
                    o.raw(n.id.as_ref());
                    ref_addr(&mut o, &n.addr);
                }
            }
            if !r.nodes_v6.is_empty() {
                o.bytes(b"nodes6");
                o.num(r.nodes_v6.len() * 38);
                o.byte(b':');
                for n in &r.nodes_v6 {
                    o.raw(n.id.as_ref());
                    ref_addr(&mut o, &n.addr);
                }
            }
            if let Some(t) = &r.token {
                o.bytes(b"token");
                o.bytes(t);
            }
            if !r.values.is_empty() {
                o.bytes(b"values");
                o.byte(b'l');
                for v in &r.values {
                    o.num(if v.is_ipv4() { 6 } else { 18 });
                    o.byte(b':');
                    ref_addr(&mut o, v);
                }
                o.byte(b'e');
            }
            o.byte(b'e');
            o.bytes(b"t");
            o.bytes(&m.transaction_id);
            o.bytes(b"y");
            o.bytes(b"r");
        }
        MessageBody::Error(e) => {
            o.bytes(b"e");
            o.byte(b'l');
            o.int(e.code as usize);
            o.bytes(e.message.as_bytes());
            o.byte(b'e');
            o.bytes(b"t");
            o.bytes(&m.transaction_id);
            o.bytes(b"y");
            o.bytes(b"e");
        }
    }
    o.byte(b'e');
    o
}

fn same(enc: &[u8], r: &Out) {
    assert!(enc.len() == r.len, "C13: encoded length differs from the canonical bencoding");
    let mut i = 0;
    while i < r.len {
        assert!(enc[i] == r.buf[i], "C13: encoding differs from the canonical bencoding");
        i += 1;
    }
}

fn any_id() -> NodeId {
    let b: [u8; 20] = kani::any();
    NodeId::from(b)
}

fn any_v4() -> SocketAddr {
    let o: [u8; 4] = kani::any();
    let p: u16 = kani::any();
    SocketAddr::from((Ipv4Addr::from(o), p))
}

fn any_v6() -> SocketAddr {
    let o: [u8; 16] = kani::any();
    let p: u16 = kani::any();
    SocketAddr::from((Ipv6Addr::from(o), p))
}

fn check_encode(m: &Message) {
    let enc = m.encode();
    assert!(enc.is_ok(), "C13: a well-formed message failed to encode");
    let enc = enc.unwrap();
    assert!(enc.len() <= 1500, "C17: encoded message longer than 1500 bytes");
    let r = ref_encode(m);
    same(&enc, &r);
    kani::cover!(true, "end of harness reached");
}

#[kani::proof]
#[kani::unwind(60)]
fn c13_encode_ping() {
    let t: [u8; 2] = kani::any();
    let m = Message {
        transaction_id: t.to_vec(),
        body: MessageBody::Request(Request::Ping(PingRequest { id: any_id() })),
    };
    check_encode(&m);
}

#[kani::proof]
#[kani::unwind(120)]
fn c13_encode_find_node_want_both() {
    let t: [u8; 8] = kani::any();
    let m = Message {
        transaction_id: t.to_vec(),
        body: MessageBody::Request(Request::FindNode(FindNodeRequest {
            id: any_id(),
            target: any_id(),
            want: Some(Want::Both),
        })),
    };
    check_encode(&m);
}

#[kani::proof]
#[kani::unwind(120)]
fn c13_encode_get_peers_want_v6() {
    let t: [u8; 8] = kani::any();
    let m = Message {
        transaction_id: t.to_vec(),
        body: MessageBody::Request(Request::GetPeers(GetPeersRequest {
            id: any_id(),
            info_hash: any_id(),
            want: Some(Want::V6),
        })),
    };
    check_encode(&m);
}

#[kani::proof]
#[kani::unwind(140)]
fn c13_encode_announce_explicit_port() {
    let t: [u8; 8] = kani::any();
    let tok: [u8; 20] = kani::any();
    let port: u16 = kani::any();
    let m = Message {
        transaction_id: t.to_vec(),
        body: MessageBody::Request(Request::AnnouncePeer(AnnouncePeerRequest {
            id: any_id(),
            info_hash: any_id(),
            port: Some(port),
            token: tok.to_vec(),
        })),
    };
    check_encode(&m);
}

#[kani::proof]
#[kani::unwind(140)]
fn c13_encode_announce_implied_port() {
    let t: [u8; 8] = kani::any();
    let tok: [u8; 4] = kani::any();
    let m = Message {
        transaction_id: t.to_vec(),
        body: MessageBody::Request(Request::AnnouncePeer(AnnouncePeerRequest {
            id: any_id(),
            info_hash: any_id(),
            port: None,
            token: tok.to_vec(),
        })),
    };
    check_encode(&m);
}

#[kani::proof]
#[kani::unwind(200)]
fn c13_encode_response_full() {
    let t: [u8; 2] = kani::any();
    let tok: [u8; 20] = kani::any();
    let m = Message {
        transaction_id: t.to_vec(),
        body: MessageBody::Response(Response {
            id: any_id(),
            values: vec![any_v4(), any_v6()],
            nodes_v4: vec![NodeHandle::new(any_id(), any_v4())],
            nodes_v6: vec![NodeHandle::new(any_id(), any_v6())],
            token: Some(tok.to_vec()),
        }),
    };
    check_encode(&m);
}

#[kani::proof]
#[kani::unwind(60)]
fn c13_encode_response_bare() {
    let t: [u8; 0] = [];
    let m = Message {
        transaction_id: t.to_vec(),
        body: MessageBody::Response(Response {
            id: any_id(),
            values: vec![],
            nodes_v4: vec![],
            nodes_v6: vec![],
            token: None,
        }),
    };
    check_encode(&m);
}

#[kani::proof]
#[kani::unwind(60)]
fn c13_encode_error() {
    let t: [u8; 2] = kani::any();
    let code: u8 = kani::any();
    let m = Message {
        transaction_id: t.to_vec(),
        body: MessageBody::Error(Error {
            code,
            message: String::from("abc"),
        }),
    };
    let enc = m.encode();
    assert!(enc.is_ok(), "C13: a well-formed message failed to encode");
    let enc = enc.unwrap();
    // d1:eli<code>e3:abce1:t2:..1:y1:ee
    let mut o = Out::new();
    o.raw(b"d1:eli");
    o.num(code as usize);
    o.raw(b"e3:abce1:t");
    o.bytes(&m.transaction_id);
    o.raw(b"1:y1:ee");
    same(&enc, &o);
    kani::cover!(true, "end of harness reached");
}

// ---------------------------------------------------------------------------------------------
// C17 — size arithmetic. `reply_len` is the closed form of the bencoded size of a get_peers
// response; it is tied to the real encoder by `c13_encode_response_full` (same reference layout)
// and evaluated here at the limits the code itself enforces.
// ---------------------------------------------------------------------------------------------

fn digits(n: usize) -> usize {
    if n >= 1000 {
        4
    } else if n >= 100 {
        3
    } else if n >= 10 {
        2
    } else {
        1
    }
}

fn bstr_len(n: usize) -> usize {
    digits(n) + 1 + n
}

/// size of `d1:rd2:id20:..[5:nodesN:..][6:nodes6N:..][5:token20:..][6:valuesl..e]e1:tN:..1:y1:re`
pub(crate) fn reply_len(values_v4: usize, values_v6: usize, nodes4: usize, nodes6: usize, token: Option<usize>, t: usize) -> usize {
    let mut n = 1 + 3 + 1; // d 1:r d
    n += 4 + bstr_len(20); // 2:id 20:<id>
    if nodes4 > 0 {
        n += 7 + bstr_len(nodes4 * 26);
    }
    if nodes6 > 0 {
        n += 8 + bstr_len(nodes6 * 38);
    }
    if let Some(tl) = token {
        n += 7 + bstr_len(tl);
    }
    if values_v4 + values_v6 > 0 {
        n += 8 + 1 + values_v4 * 8 + values_v6 * 21 + 1;
    }
    n += 1; // e (end of r)
    n += 3 + bstr_len(t); // 1:t N:<t>
    n += 6 + 1; // 1:y1:r e
    n
}

/// Every get_peers reply the handler's limits allow (values capped per requester family by
/// MAX_VALUES_V4 / MAX_VALUES_V6, at most 8 nodes per family, 20-byte token, transaction id of up
/// to 32 bytes) fits 1500 bytes.
#[kani::proof]
fn c17_get_peers_reply_fits() {
    let v: usize = kani::any();
    let requester_v6: bool = kani::any();
    let n4: usize = kani::any();
    let n6: usize = kani::any();
    let t: usize = kani::any();
    let cap = if requester_v6 {
        crate::handler::MAX_VALUES_V6
    } else {
        crate::handler::MAX_VALUES_V4
    };
    kani::assume(v <= cap && n4 <= 8 && n6 <= 8 && t <= 32);
    let len = if requester_v6 {
        reply_len(0, v, n4, n6, Some(20), t)
    } else {
        reply_len(v, 0, n4, n6, Some(20), t)
    };
    assert!(len <= 1500, "C17: a get_peers reply within the code's own limits exceeds 1500 bytes");
    kani::cover!(len > 1400, "a reply near the limit exists");
}

/// The closed form agrees with the reference encoder on a full small shape (and through
/// c13_encode_response_full with the real encoder).
#[kani::proof]
#[kani::unwind(200)]
fn c17_reply_len_formula_matches_reference() {
    let tok: [u8; 20] = kani::any();
    let t: [u8; 2] = kani::any();
    let m = Message {
        transaction_id: t.to_vec(),
        body: MessageBody::Response(Response {
            id: any_id(),
            values: vec![any_v4(), any_v6()],
            nodes_v4: vec![NodeHandle::new(any_id(), any_v4())],
            nodes_v6: vec![NodeHandle::new(any_id(), any_v6())],
            token: Some(tok.to_vec()),
        }),
    };
    let r = ref_encode(&m);
    assert!(r.len == reply_len(1, 1, 1, 1, Some(20), 2), "C17: size formula disagrees with the reference encoder");
    kani::cover!(true, "end of harness reached");
}

// ---------------------------------------------------------------------------------------------
// C13 (layer 2, messages): btdht's Deserialize impls driven by a parsed bencode value
// (crate::verif::Val mirrors how the bencode library calls serde visitors).
// ---------------------------------------------------------------------------------------------

use crate::verif::{NoMsg, Val};
use serde::Deserialize;

fn decode_val(v: Val) -> Result<Message, NoMsg> {
    Message::deserialize(v)
}

/// ping query, keys in canonical order
#[kani::proof]
#[kani::unwind(24)]
#[kani::stub(alloc::fmt::format, crate::verif::stub_fmt_format)]
fn c13_decode_ping_val() {
    let id: [u8; 20] = kani::any();
    let t: [u8; 2] = kani::any();
    let v = Val::Dict(vec![
        (b"a", Val::Dict(vec![(b"id", Val::Bytes(&id))])),
        (b"q", Val::Bytes(b"ping")),
        (b"t", Val::Bytes(&t)),
        (b"y", Val::Bytes(b"q")),
    ]);
    let m = decode_val(v);
    assert!(m.is_ok(), "C13: a well-formed ping is not decoded");
    let m = m.unwrap();
    assert!(m.transaction_id.len() == 2 && m.transaction_id[0] == t[0] && m.transaction_id[1] == t[1], "C13: transaction id altered");
    match m.body {
        MessageBody::Request(Request::Ping(p)) => {
            let got: [u8; 20] = p.id.into();
            let mut k = 0;
            while k < 20 {
                assert!(got[k] == id[k], "C13: ping id altered");
                k += 1;
            }
        }
        _ => assert!(false, "C13: ping decoded as a different message"),
    }
    kani::cover!(true, "end of harness reached");
}

fn id_eq(a: NodeId, b: &[u8; 20]) -> bool {
    let got: [u8; 20] = a.into();
    let mut k = 0;
    let mut same = true;
    while k < 20 {
        if got[k] != b[k] {
            same = false;
        }
        k += 1;
    }
    same
}

/// find_node: keys reordered at both levels, keys unknown to BEP5/32 present at both levels
/// (`v`, `ro` at top level; `noseed`, `scrape` among the arguments): decodes to the same message.
#[kani::proof]
#[kani::unwind(24)]
#[kani::stub(alloc::fmt::format, crate::verif::stub_fmt_format)]
fn c13_decode_find_node_reordered_unknown_keys() {
    let id: [u8; 20] = kani::any();
    let target: [u8; 20] = kani::any();
    let t: [u8; 4] = kani::any();
    let junk: [u8; 4] = kani::any();
    let n: i64 = kani::any();
    let v = Val::Dict(vec![
        (b"y", Val::Bytes(b"q")),
        (b"v", Val::Bytes(&junk)),
        (b"t", Val::Bytes(&t)),
        (b"ro", Val::Int(n)),
        (b"q", Val::Bytes(b"find_node")),
        (
            b"a",
            Val::Dict(vec![
                (b"want", Val::List(vec![Val::Bytes(b"n6"), Val::Bytes(b"n4")])),
                (b"target", Val::Bytes(&target)),
                (b"scrape", Val::Int(n)),
                (b"noseed", Val::Int(1)),
                (b"id", Val::Bytes(&id)),
            ]),
        ),
    ]);
    let m = decode_val(v);
    assert!(m.is_ok(), "C13: find_node with reordered / unknown keys is not decoded");
    let m = m.unwrap();
    assert!(m.transaction_id.len() == 4 && m.transaction_id[3] == t[3], "C13: transaction id altered");
    match m.body {
        MessageBody::Request(Request::FindNode(f)) => {
            assert!(id_eq(f.id, &id) && id_eq(f.target, &target), "C13: find_node ids altered");
            assert!(f.want == Some(Want::Both), "C13: want list decoded wrongly");
        }
        _ => assert!(false, "C13: find_node decoded as a different message"),
    }
    kani::cover!(true, "end of harness reached");
}

/// get_peers / announce_peer: the variant chosen is the one BEP5 prescribes for the key set, with
/// explicit and implied port.
#[kani::proof]
#[kani::unwind(24)]
#[kani::stub(alloc::fmt::format, crate::verif::stub_fmt_format)]
fn c13_decode_get_peers_and_announce() {
    let id: [u8; 20] = kani::any();
    let ih: [u8; 20] = kani::any();
    let t: [u8; 2] = kani::any();
    let tok: [u8; 8] = kani::any();
    let port: u16 = kani::any();
    let implied: u8 = kani::any();
    let which: bool = kani::any();
    if which {
        let v = Val::Dict(vec![
            (b"a", Val::Dict(vec![(b"id", Val::Bytes(&id)), (b"info_hash", Val::Bytes(&ih))])),
            (b"q", Val::Bytes(b"get_peers")),
            (b"t", Val::Bytes(&t)),
            (b"y", Val::Bytes(b"q")),
        ]);
        match decode_val(v) {
            Ok(Message { body: MessageBody::Request(Request::GetPeers(g)), .. }) => {
                assert!(id_eq(g.id, &id) && id_eq(g.info_hash, &ih) && g.want.is_none(), "C13: get_peers fields altered");
            }
            _ => assert!(false, "C13: a well-formed get_peers is not decoded as get_peers"),
        }
    } else {
        let v = Val::Dict(vec![
            (
                b"a",
                Val::Dict(vec![
                    (b"id", Val::Bytes(&id)),
                    (b"implied_port", Val::Int(implied as i64)),
                    (b"info_hash", Val::Bytes(&ih)),
                    (b"port", Val::Int(port as i64)),
                    (b"token", Val::Bytes(&tok)),
                ]),
            ),
            (b"q", Val::Bytes(b"announce_peer")),
            (b"t", Val::Bytes(&t)),
            (b"y", Val::Bytes(b"q")),
        ]);
        match decode_val(v) {
            Ok(Message { body: MessageBody::Request(Request::AnnouncePeer(a)), .. }) => {
                assert!(id_eq(a.id, &id) && id_eq(a.info_hash, &ih), "C13: announce_peer ids altered");
                assert!(a.token.len() == 8 && a.token[0] == tok[0] && a.token[7] == tok[7], "C13: token altered");
                assert!(a.port == if implied > 0 { None } else { Some(port) }, "C13: port / implied_port decoded wrongly");
            }
            _ => assert!(false, "C13: a well-formed announce_peer is not decoded as announce_peer"),
        }
    }
    kani::cover!(true, "end of harness reached");
}

/// Rejections: arguments that do not fit the named method, ids that are not 20 bytes, missing parts.
#[kani::proof]
#[kani::unwind(24)]
#[kani::stub(alloc::fmt::format, crate::verif::stub_fmt_format)]
fn c13_decode_rejections() {
    let id: [u8; 21] = kani::any();
    let t: [u8; 2] = kani::any();
    let case: u8 = kani::any();
    kani::assume(case < 6);
    let args_ping = Val::Dict(vec![(b"id", Val::Bytes(&id[..20]))]);
    let v = match case {
        // find_node without target
        0 => Val::Dict(vec![(b"a", args_ping), (b"q", Val::Bytes(b"find_node")), (b"t", Val::Bytes(&t)), (b"y", Val::Bytes(b"q"))]),
        // get_peers without info_hash
        1 => Val::Dict(vec![(b"a", args_ping), (b"q", Val::Bytes(b"get_peers")), (b"t", Val::Bytes(&t)), (b"y", Val::Bytes(b"q"))]),
        // 19-byte id
        2 => Val::Dict(vec![(b"a", Val::Dict(vec![(b"id", Val::Bytes(&id[..19]))])), (b"q", Val::Bytes(b"ping")), (b"t", Val::Bytes(&t)), (b"y", Val::Bytes(b"q"))]),
        // 21-byte id
        3 => Val::Dict(vec![(b"a", Val::Dict(vec![(b"id", Val::Bytes(&id[..21]))])), (b"q", Val::Bytes(b"ping")), (b"t", Val::Bytes(&t)), (b"y", Val::Bytes(b"q"))]),
        // query without arguments
        4 => Val::Dict(vec![(b"q", Val::Bytes(b"ping")), (b"t", Val::Bytes(&t)), (b"y", Val::Bytes(b"q"))]),
        // response without a body
        _ => Val::Dict(vec![(b"t", Val::Bytes(&t)), (b"y", Val::Bytes(b"r"))]),
    };
    assert!(decode_val(v).is_err(), "C13: a malformed message is accepted");
    kani::cover!(case == 5, "missing response body case");
}

/// Responses: id/token/values/nodes/nodes6 decoded; a nodes blob that is not a multiple of 26 and
/// a 7-byte peer are refused.
#[kani::proof]
#[kani::unwind(40)]
#[kani::stub(alloc::fmt::format, crate::verif::stub_fmt_format)]
fn c13_decode_response() {
    let id: [u8; 20] = kani::any();
    let t: [u8; 2] = kani::any();
    let tok: [u8; 4] = kani::any();
    let nodes: [u8; 27] = kani::any();
    let nodes6: [u8; 38] = kani::any();
    let peer: [u8; 7] = kani::any();
    let case: u8 = kani::any();
    kani::assume(case < 3);
    let (nlen, plen) = match case {
        0 => (26, 6),
        1 => (27, 6),
        _ => (26, 7),
    };
    let v = Val::Dict(vec![
        (
            b"r",
            Val::Dict(vec![
                (b"id", Val::Bytes(&id)),
                (b"nodes", Val::Bytes(&nodes[..nlen])),
                (b"nodes6", Val::Bytes(&nodes6)),
                (b"token", Val::Bytes(&tok)),
                (b"values", Val::List(vec![Val::Bytes(&peer[..plen])])),
            ]),
        ),
        (b"t", Val::Bytes(&t)),
        (b"y", Val::Bytes(b"r")),
    ]);
    let m = decode_val(v);
    if case == 0 {
        match m {
            Ok(Message { body: MessageBody::Response(r), .. }) => {
                assert!(id_eq(r.id, &id), "C13: response id altered");
                assert!(r.nodes_v4.len() == 1 && r.nodes_v6.len() == 1 && r.values.len() == 1, "C13: response lists decoded with wrong counts");
                assert!(r.token.as_deref() == Some(&tok[..]), "C13: response token altered");
                assert!(r.values[0].port() == ((peer[4] as u16) << 8 | peer[5] as u16), "C13: peer port is not big-endian");
                assert!(r.nodes_v6[0].addr.is_ipv6() && r.nodes_v4[0].addr.is_ipv4(), "C13: node families mixed up");
            }
            _ => assert!(false, "C13: a well-formed response is not decoded"),
        }
    } else {
        assert!(m.is_err(), "C13: a response with a malformed compact list is accepted");
    }
    kani::cover!(case == 2, "malformed peer case");
}

/// Errors: [code, text]; a third element is refused.
#[kani::proof]
#[kani::unwind(24)]
#[kani::stub(alloc::fmt::format, crate::verif::stub_fmt_format)]
fn c13_decode_error() {
    let t: [u8; 2] = kani::any();
    let code: u8 = kani::any();
    let extra: bool = kani::any();
    let mut list = vec![Val::Int(code as i64), Val::Bytes(b"abc")];
    if extra {
        list.push(Val::Int(0));
    }
    let v = Val::Dict(vec![(b"e", Val::List(list)), (b"t", Val::Bytes(&t)), (b"y", Val::Bytes(b"e"))]);
    match decode_val(v) {
        Ok(Message { body: MessageBody::Error(e), .. }) => {
            assert!(!extra, "C13: an error list with three elements is accepted");
            assert!(e.code == code && e.message.as_bytes() == b"abc", "C13: error fields altered");
        }
        Ok(_) => assert!(false, "C13: an error message decoded as something else"),
        Err(_) => assert!(extra, "C13: a well-formed error message is refused"),
    }
    kani::cover!(extra, "over-long error list case");
}

/// NATIVE ONLY (role native-validation in lib/registry.py; never given to the solver, F24):
/// pseudo-random get_peers replies through the real encoder. Validates the size formula
/// `reply_len` and, for replies within the code's own limits, checks the 1500-byte bound directly.
#[kani::proof]
fn c17_formula_matches_encoder_native() {
    let v6: bool = kani::any();
    let nv: usize = (kani::any::<u8>() % 121) as usize;
    let n4: usize = (kani::any::<u8>() % 9) as usize;
    let n6: usize = (kani::any::<u8>() % 9) as usize;
    let tl: usize = (kani::any::<u8>() % 33) as usize;
    let has_token: bool = kani::any();
    let mut values = Vec::new();
    for _ in 0..nv {
        values.push(if v6 { any_v6() } else { any_v4() });
    }
    let mut nodes_v4 = Vec::new();
    for _ in 0..n4 {
        nodes_v4.push(NodeHandle::new(any_id(), any_v4()));
    }
    let mut nodes_v6 = Vec::new();
    for _ in 0..n6 {
        nodes_v6.push(NodeHandle::new(any_id(), any_v6()));
    }
    let mut t = Vec::new();
    for _ in 0..tl {
        t.push(kani::any::<u8>());
    }
    let tok: [u8; 20] = kani::any();
    let m = Message {
        transaction_id: t,
        body: MessageBody::Response(Response {
            id: any_id(),
            values,
            nodes_v4,
            nodes_v6,
            token: if has_token { Some(tok.to_vec()) } else { None },
        }),
    };
    let len = m.encode().expect("encodes").len();
    let (a, b) = if v6 { (0, nv) } else { (nv, 0) };
    assert!(len == reply_len(a, b, n4, n6, if has_token { Some(20) } else { None }, tl), "model: size formula disagrees with the real encoder");
    let cap = if v6 { crate::handler::MAX_VALUES_V6 } else { crate::handler::MAX_VALUES_V4 };
    if nv <= cap {
        assert!(len <= 1500, "C17: a get_peers reply within the code's own limits exceeds 1500 bytes");
    }
}

// ---------------------------------------------------------------------------------------------
// NATIVE ONLY (role native-validation): the whole-text codec, which the solver cannot reach
// (bencode text parser and emitter, DESIGN.md F8/F14/F24/F26). Pseudo-random messages of every kind:
// real encoder == reference encoder, decode(encode(m)) == m, and decoding is insensitive to key
// order and to keys unknown to BEP5/32 at both dictionary levels.
// ---------------------------------------------------------------------------------------------

fn nat_bytes(n: usize) -> Vec<u8> {
    let mut v = Vec::new();
    for _ in 0..n {
        v.push(kani::any::<u8>());
    }
    v
}

fn nat_message() -> Message {
    let t = nat_bytes((kani::any::<u8>() % 33) as usize);
    let want = match kani::any::<u8>() % 4 {
        0 => None,
        1 => Some(Want::V4),
        2 => Some(Want::V6),
        _ => Some(Want::Both),
    };
    let body = match kani::any::<u8>() % 7 {
        0 => MessageBody::Request(Request::Ping(PingRequest { id: any_id() })),
        1 => MessageBody::Request(Request::FindNode(FindNodeRequest { id: any_id(), target: any_id(), want })),
        2 => MessageBody::Request(Request::GetPeers(GetPeersRequest { id: any_id(), info_hash: any_id(), want })),
        3 => MessageBody::Request(Request::AnnouncePeer(AnnouncePeerRequest {
            id: any_id(),
            info_hash: any_id(),
            port: match kani::any::<u8>() % 5 {
                0 => None,
                1 => Some(0), // boundary values are drawn often, not with probability 2^-16
                2 => Some(65535),
                3 => Some(1),
                _ => Some(kani::any::<u16>()),
            },
            token: nat_bytes((kani::any::<u8>() % 24) as usize),
        })),
        4 | 5 => {
            let mut values = Vec::new();
            for _ in 0..(kani::any::<u8>() % 6) {
                values.push(if kani::any::<bool>() { any_v4() } else { any_v6() });
            }
            let mut nodes_v4 = Vec::new();
            for _ in 0..(kani::any::<u8>() % 9) {
                nodes_v4.push(NodeHandle::new(any_id(), any_v4()));
            }
            let mut nodes_v6 = Vec::new();
            for _ in 0..(kani::any::<u8>() % 9) {
                nodes_v6.push(NodeHandle::new(any_id(), any_v6()));
            }
            MessageBody::Response(Response {
                id: any_id(),
                values,
                nodes_v4,
                nodes_v6,
                token: if kani::any::<bool>() { Some(nat_bytes((kani::any::<u8>() % 24) as usize)) } else { None },
            })
        }
        _ => MessageBody::Error(Error { code: kani::any::<u8>(), message: String::from(if kani::any::<bool>() { "" } else { "A Generic Error Ocurred" }) }),
    };
    Message { transaction_id: t, body }
}

/// dictionary with `extra` unknown keys mixed in and the entries rotated by `rot` (not sorted)
fn nat_dict(mut entries: Vec<(Vec<u8>, Vec<u8>)>, rot: usize) -> Vec<u8> {
    entries.push((b"v".to_vec(), b"4:UT\x01\x02".to_vec()));
    entries.push((b"ip".to_vec(), b"6:\x01\x02\x03\x04\x05\x06".to_vec()));
    entries.push((b"ro".to_vec(), b"i1e".to_vec()));
    entries.push((b"noseed".to_vec(), b"i0e".to_vec()));
    entries.push((b"scrape".to_vec(), b"li1ei2ee".to_vec()));
    entries.push((b"name".to_vec(), b"d1:x1:ye".to_vec()));
    let n = entries.len();
    entries.rotate_left(rot % n);
    let mut out = vec![b'd'];
    for (k, v) in entries {
        out.extend(format!("{}:", k.len()).into_bytes());
        out.extend(k);
        out.extend(v);
    }
    out.push(b'e');
    out
}

fn nat_bstr(b: &[u8]) -> Vec<u8> {
    let mut out = format!("{}:", b.len()).into_bytes();
    out.extend(b);
    out
}

#[kani::proof]
fn c13_codec_roundtrip_native() {
    let m = nat_message();
    let enc = m.encode().expect("model: a well-formed message failed to encode");
    if enc.len() <= 400 {
        let r = ref_encode(&m);
        assert!(enc.len() == r.len && enc[..] == r.buf[..r.len], "C13: encoding differs from the canonical bencoding");
    }
    match Message::decode(&enc) {
        Ok(d) => assert!(d == m, "C13: decoding the canonical encoding gives a different message"),
        Err(_) => panic!("C13: the canonical encoding of a well-formed message is not decoded"),
    }
    // reordered keys + unknown keys at both levels (queries: `a`; responses: `r`)
    let rot1 = kani::any::<u8>() as usize;
    let rot2 = kani::any::<u8>() as usize;
    let t = nat_bstr(&m.transaction_id);
    let text = match &m.body {
        MessageBody::Request(Request::FindNode(f)) => {
            let mut a = vec![(b"id".to_vec(), nat_bstr(f.id.as_ref())), (b"target".to_vec(), nat_bstr(f.target.as_ref()))];
            if let Some(w) = f.want {
                a.push((b"want".to_vec(), match w { Want::V4 => b"l2:n4e".to_vec(), Want::V6 => b"l2:n6e".to_vec(), Want::Both => b"l2:n62:n4e".to_vec() }));
            }
            Some(nat_dict(vec![(b"a".to_vec(), nat_dict(a, rot2)), (b"q".to_vec(), b"9:find_node".to_vec()), (b"t".to_vec(), t), (b"y".to_vec(), b"1:q".to_vec())], rot1))
        }
        MessageBody::Request(Request::Ping(p)) => {
            Some(nat_dict(vec![(b"a".to_vec(), nat_dict(vec![(b"id".to_vec(), nat_bstr(p.id.as_ref()))], rot2)), (b"q".to_vec(), b"4:ping".to_vec()), (b"t".to_vec(), t), (b"y".to_vec(), b"1:q".to_vec())], rot1))
        }
        MessageBody::Response(r) if r.values.is_empty() && r.nodes_v4.is_empty() && r.nodes_v6.is_empty() => {
            let mut e = vec![(b"id".to_vec(), nat_bstr(r.id.as_ref()))];
            if let Some(tok) = &r.token {
                e.push((b"token".to_vec(), nat_bstr(tok)));
            }
            Some(nat_dict(vec![(b"r".to_vec(), nat_dict(e, rot2)), (b"t".to_vec(), t), (b"y".to_vec(), b"1:r".to_vec())], rot1))
        }
        _ => None,
    };
    if let Some(text) = text {
        match Message::decode(&text) {
            Ok(d) => assert!(d == m, "C13: reordered / unknown keys change the decoded message"),
            Err(_) => panic!("C13: a message with reordered / unknown keys is not decoded"),
        }
    }
}
