// Shared runtime of the verification harnesses: `crate::verif` under `cargo kani`.
//
// Everything here is *environment* (DESIGN.md 3.3): the virtual clock helpers, the
// nondeterministic permutation that stands in for `shuffle(thread_rng())`, and the stubs
// for randomness, SHA-1 and CRC-32C. Each stub is listed in the evidence of every check using it.


use std::time::Duration;

// ---------------------------------------------------------------------------------------------
// Clock
// ---------------------------------------------------------------------------------------------

pub(crate) mod clock {
    use std::time::Duration;

    pub(crate) use crate::time::CLOCK_MIN_SECS;

    /// Start the virtual clock at an arbitrary instant `>= one week` (what the real clock
    /// guarantees, see time.rs) and below ~34 years, with arbitrary sub-second part.
    pub(crate) fn start_symbolic() -> Duration {
        // every raw value is a valid choice (keeps the native sanity runs useful)
        let secs: u64 = CLOCK_MIN_SECS + (kani::any::<u32>() >> 2) as u64;
        let nanos: u32 = kani::any::<u32>() % 1_000_000_000;
        let d = Duration::new(secs, nanos);
        crate::time::set_now(d);
        d
    }

    /// Start at a fixed instant (for harnesses that are not about time).
    pub(crate) fn start_fixed() {
        crate::time::set_now(Duration::new(CLOCK_MIN_SECS + 1000, 0));
    }

    /// Let an arbitrary amount of time in `[0, max_secs]` seconds (ns resolution) pass.
    pub(crate) fn wait_symbolic(max_secs: u64) -> Duration {
        let secs: u64 = kani::any();
        let nanos: u32 = kani::any();
        kani::assume(secs <= max_secs);
        kani::assume(nanos < 1_000_000_000);
        kani::assume(secs < max_secs || nanos == 0);
        let d = Duration::new(secs, nanos);
        crate::time::advance(d);
        d
    }

    pub(crate) fn wait(d: Duration) {
        crate::time::advance(d);
    }

    pub(crate) fn now() -> Duration {
        crate::time::now_since_epoch()
    }
}

pub(crate) fn symbolic_duration(max_secs: u64) -> Duration {
    let secs: u64 = kani::any();
    let nanos: u32 = kani::any();
    kani::assume(secs <= max_secs);
    kani::assume(nanos < 1_000_000_000);
    kani::assume(secs < max_secs || nanos == 0);
    Duration::new(secs, nanos)
}

// ---------------------------------------------------------------------------------------------
// Permutation hook (H2): stands in for `ids.shuffle(&mut rand::thread_rng())`.
// Up to two arbitrary transpositions (identity included). The properties only rely on the
// result being *a permutation* of the block.
// ---------------------------------------------------------------------------------------------

static mut PERMUTE_IDENTITY: bool = false;

/// Harnesses that are not about the order inside a block may pin the hook to the identity
/// permutation (a symbolic transposition on a 2048-entry block is expensive, DESIGN.md F14).
pub(crate) fn set_permute_identity(on: bool) {
    unsafe { PERMUTE_IDENTITY = on }
}

pub(crate) fn permute(ids: &mut [u64]) {
    let n = ids.len();
    if n < 2 || unsafe { PERMUTE_IDENTITY } {
        return;
    }
    let a: usize = kani::any();
    let b: usize = kani::any();
    let c: usize = kani::any();
    let d: usize = kani::any();
    if a < n && b < n {
        ids.swap(a, b);
    }
    if c < n && d < n {
        ids.swap(c, d);
    }
}

// ---------------------------------------------------------------------------------------------
// Randomness: `rand::random::<T>()` drawn from a symbolic generator.
// ---------------------------------------------------------------------------------------------

pub(crate) struct SymRng;

impl rand::RngCore for SymRng {
    fn next_u32(&mut self) -> u32 {
        kani::any()
    }
    fn next_u64(&mut self) -> u64 {
        kani::any()
    }
    fn fill_bytes(&mut self, dest: &mut [u8]) {
        for b in dest.iter_mut() {
            *b = kani::any();
        }
    }
    fn try_fill_bytes(&mut self, dest: &mut [u8]) -> Result<(), rand::Error> {
        self.fill_bytes(dest);
        Ok(())
    }
}

/// Stub for `rand::random`: every draw is an arbitrary value of its type.
pub(crate) fn stub_random<T>() -> T
where
    rand::distributions::Standard: rand::distributions::Distribution<T>,
{
    use rand::distributions::Distribution;
    rand::distributions::Standard.sample(&mut SymRng)
}

// ---------------------------------------------------------------------------------------------
// CRC-32C (Castagnoli), bitwise reference. Stub for `crc32c::crc32c_append`, whose real
// implementation uses SSE4.2 intrinsics CBMC does not model.
// ---------------------------------------------------------------------------------------------

pub(crate) fn ref_crc32c_append(crc: u32, data: &[u8]) -> u32 {
    let mut crc = !crc;
    for &byte in data {
        crc ^= byte as u32;
        let mut k = 0;
        while k < 8 {
            crc = if crc & 1 != 0 {
                (crc >> 1) ^ 0x82F6_3B78
            } else {
                crc >> 1
            };
            k += 1;
        }
    }
    !crc
}

// ---------------------------------------------------------------------------------------------
// Small helpers
// ---------------------------------------------------------------------------------------------

/// Concrete, pairwise distinct 20-byte ids: id(k) has `k+1` in its last byte and `tag` in its first.
pub(crate) fn concrete_id(tag: u8, k: u8) -> crate::info_hash::InfoHash {
    let mut b = [0u8; 20];
    b[0] = tag;
    b[19] = k.wrapping_add(1);
    b.into()
}

pub(crate) fn concrete_addr_v4(k: u8) -> std::net::SocketAddr {
    std::net::SocketAddr::from((std::net::Ipv4Addr::new(10, 0, 0, k.wrapping_add(1)), 6881))
}

/// Stub for `std::hash::RandomState::new` (its real body reads OS randomness through an FFI call
/// CBMC cannot model): fixed zero keys. No property depends on the hash seed.
pub(crate) fn stub_random_state_new() -> std::hash::RandomState {
    unsafe { std::mem::zeroed() }
}

/// id with leading-zero count (= shared prefix with an all-zero local id) `lz`, distinguished by `k`.
pub(crate) fn id_with_prefix(lz: usize, k: u8) -> crate::info_hash::InfoHash {
    let mut b = [0u8; 20];
    if lz < 160 {
        b[lz / 8] = 0x80 >> (lz % 8);
    }
    // distinguishing bytes at the end (kept clear of bit `lz` for lz < 144)
    b[19] |= k.wrapping_add(1);
    b.into()
}

// ---------------------------------------------------------------------------------------------
// SHA-1 as a collision-free lazy random oracle (stub for InfoHash::sha1 in the token harnesses):
// equal input (same length, same bytes) => same output; different input => different output.
// ---------------------------------------------------------------------------------------------

const ORACLE_SLOTS: usize = 12;
static mut ORACLE_N: usize = 0;
// input packed as (length, first 8 bytes, next 8 bytes, last 4 bytes)
static mut ORACLE_IN: [(usize, u64, u64, u32); ORACLE_SLOTS] = [(0, 0, 0, 0); ORACLE_SLOTS];
static mut ORACLE_OUT: [u64; ORACLE_SLOTS] = [0; ORACLE_SLOTS];

pub(crate) fn oracle_reset() {
    unsafe {
        ORACLE_N = 0;
    }
}

pub(crate) fn oracle_queries() -> usize {
    unsafe { ORACLE_N }
}

fn pack(bytes: &[u8]) -> (usize, u64, u64, u32) {
    let len = bytes.len();
    assert!(len <= 20, "oracle: input longer than modelled");
    let mut b = [0u8; 20];
    let mut i = 0;
    while i < len {
        b[i] = bytes[i];
        i += 1;
    }
    (
        len,
        u64::from_le_bytes([b[0], b[1], b[2], b[3], b[4], b[5], b[6], b[7]]),
        u64::from_le_bytes([b[8], b[9], b[10], b[11], b[12], b[13], b[14], b[15]]),
        u32::from_le_bytes([b[16], b[17], b[18], b[19]]),
    )
}

pub(crate) fn stub_sha1(bytes: &[u8]) -> crate::info_hash::InfoHash {
    let input = pack(bytes);
    unsafe {
        let mut found: Option<u64> = None;
        let mut q = 0;
        while q < ORACLE_N {
            if ORACLE_IN[q] == input {
                found = Some(ORACLE_OUT[q]);
            }
            q += 1;
        }
        let out = match found {
            Some(o) => o,
            None => {
                assert!(ORACLE_N < ORACLE_SLOTS, "oracle: more queries than modelled");
                let o: u64 = kani::any();
                let mut q = 0;
                while q < ORACLE_N {
                    kani::assume(ORACLE_OUT[q] != o);
                    q += 1;
                }
                ORACLE_IN[ORACLE_N] = input;
                ORACLE_OUT[ORACLE_N] = o;
                ORACLE_N += 1;
                o
            }
        };
        let ob = out.to_le_bytes();
        let digest: [u8; 20] = [ob[0], ob[1], ob[2], ob[3], ob[4], ob[5], ob[6], ob[7], 0, 0, 0, 0, 0, 0, 0, 0, 0, 0, 0, 0];
        digest.into()
    }
}

// `rand::random::<u32>()` for token secrets: arbitrary, but a fresh secret never equals an earlier
// one (a collision has probability 2^-32 per pair; stated assumption of C06).
const SECRET_SLOTS: usize = 16;
static mut SECRET_N: usize = 0;
static mut SECRETS: [u32; SECRET_SLOTS] = [0; SECRET_SLOTS];

pub(crate) fn secrets_reset() {
    unsafe {
        SECRET_N = 0;
    }
}

pub(crate) struct DistinctRng;

impl rand::RngCore for DistinctRng {
    fn next_u32(&mut self) -> u32 {
        let v: u32 = kani::any();
        unsafe {
            assert!(SECRET_N < SECRET_SLOTS, "more random secrets than modelled");
            let mut i = 0;
            while i < SECRET_N {
                kani::assume(SECRETS[i] != v);
                i += 1;
            }
            SECRETS[SECRET_N] = v;
            SECRET_N += 1;
        }
        v
    }
    fn next_u64(&mut self) -> u64 {
        kani::any()
    }
    fn fill_bytes(&mut self, dest: &mut [u8]) {
        for b in dest.iter_mut() {
            *b = kani::any();
        }
    }
    fn try_fill_bytes(&mut self, dest: &mut [u8]) -> Result<(), rand::Error> {
        self.fill_bytes(dest);
        Ok(())
    }
}

pub(crate) fn stub_random_distinct<T>() -> T
where
    rand::distributions::Standard: rand::distributions::Distribution<T>,
{
    use rand::distributions::Distribution;
    rand::distributions::Standard.sample(&mut DistinctRng)
}

// ---------------------------------------------------------------------------------------------
// serde error type without message formatting (error text is never the subject of a property).
// ---------------------------------------------------------------------------------------------

#[derive(Debug)]
pub(crate) struct NoMsg;

impl std::fmt::Display for NoMsg {
    fn fmt(&self, _f: &mut std::fmt::Formatter<'_>) -> std::fmt::Result {
        Ok(())
    }
}

impl std::error::Error for NoMsg {}

impl serde::de::Error for NoMsg {
    fn custom<T: std::fmt::Display>(_msg: T) -> Self {
        NoMsg
    }
    fn invalid_type(_unexp: serde::de::Unexpected, _exp: &dyn serde::de::Expected) -> Self {
        NoMsg
    }
    fn invalid_value(_unexp: serde::de::Unexpected, _exp: &dyn serde::de::Expected) -> Self {
        NoMsg
    }
    fn invalid_length(_len: usize, _exp: &dyn serde::de::Expected) -> Self {
        NoMsg
    }
    fn unknown_variant(_variant: &str, _expected: &'static [&'static str]) -> Self {
        NoMsg
    }
    fn unknown_field(_field: &str, _expected: &'static [&'static str]) -> Self {
        NoMsg
    }
    fn missing_field(_field: &'static str) -> Self {
        NoMsg
    }
    fn duplicate_field(_field: &'static str) -> Self {
        NoMsg
    }
}

impl serde::ser::Error for NoMsg {
    fn custom<T: std::fmt::Display>(_msg: T) -> Self {
        NoMsg
    }
}

/// Stub for `alloc::fmt::format`: error/log text is not the subject of any property.
pub(crate) fn stub_fmt_format(_args: std::fmt::Arguments<'_>) -> String {
    String::new()
}

// ---------------------------------------------------------------------------------------------
// Linear-scan stand-in for `std::collections::HashSet<SocketAddr>` (RoutingTable.routers under
// cfg(kani)): std's hashbrown probing is not tractable in CBMC even on concrete data (DESIGN.md
// F4/F17). Set semantics only (membership, insertion without duplicates); no property depends on
// hashing. Fixed capacity, no heap. Covered by `c12_router_set_standin_laws`.
// ---------------------------------------------------------------------------------------------
pub(crate) mod vset {
    pub const CAP: usize = 4;

    #[derive(Clone, Debug)]
    pub struct HashSet<T: Copy + PartialEq> {
        items: [Option<T>; CAP],
        len: usize,
    }

    impl<T: Copy + PartialEq> Default for HashSet<T> {
        fn default() -> Self {
            HashSet { items: [None; CAP], len: 0 }
        }
    }

    impl<T: Copy + PartialEq> HashSet<T> {
        pub fn new() -> Self {
            Self::default()
        }

        pub fn contains(&self, v: &T) -> bool {
            let mut i = 0;
            while i < CAP {
                if i < self.len {
                    if let Some(x) = &self.items[i] {
                        if x == v {
                            return true;
                        }
                    }
                }
                i += 1;
            }
            false
        }

        pub fn insert(&mut self, v: T) -> bool {
            if self.contains(&v) {
                return false;
            }
            assert!(self.len < CAP, "verif: router set stand-in holds at most 4 addresses");
            self.items[self.len] = Some(v);
            self.len += 1;
            true
        }

        pub fn len(&self) -> usize {
            self.len
        }

        pub fn is_empty(&self) -> bool {
            self.len == 0
        }

        pub fn iter(&self) -> impl Iterator<Item = &T> {
            self.items[..self.len].iter().filter_map(|x| x.as_ref())
        }
    }

    impl<T: Copy + PartialEq> std::iter::FromIterator<T> for HashSet<T> {
        fn from_iter<I: IntoIterator<Item = T>>(iter: I) -> Self {
            let mut s = Self::default();
            for v in iter {
                s.insert(v);
            }
            s
        }
    }
}

// ---------------------------------------------------------------------------------------------
// Linear-scan stand-in for `std::collections::HashMap` (storage.rs under cfg(kani)); DESIGN.md F17.
// Map semantics only, API subset storage.rs uses. Fixed capacity, keys compared with `==`.
// ---------------------------------------------------------------------------------------------
pub(crate) mod vmap {
    pub const CAP: usize = 2;

    pub struct HashMap<K: PartialEq, V> {
        slots: [Option<(K, V)>; CAP],
    }

    pub enum Entry<'a, K: PartialEq, V> {
        Occupied(OccupiedEntry<'a, K, V>),
        Vacant(VacantEntry<'a, K, V>),
    }

    pub struct OccupiedEntry<'a, K: PartialEq, V> {
        slot: &'a mut Option<(K, V)>,
    }

    pub struct VacantEntry<'a, K: PartialEq, V> {
        slot: &'a mut Option<(K, V)>,
        key: K,
    }

    impl<'a, K: PartialEq, V> OccupiedEntry<'a, K, V> {
        pub fn get_mut(&mut self) -> &mut V {
            match self.slot {
                Some((_, v)) => v,
                None => unreachable!(),
            }
        }
    }

    impl<'a, K: PartialEq, V> VacantEntry<'a, K, V> {
        pub fn insert(self, v: V) -> &'a mut V {
            *self.slot = Some((self.key, v));
            match self.slot {
                Some((_, v)) => v,
                None => unreachable!(),
            }
        }
    }

    impl<K: PartialEq, V> HashMap<K, V> {
        pub fn new() -> Self {
            HashMap { slots: [None, None] }
        }

        fn index_of(&self, k: &K) -> Option<usize> {
            let mut i = 0;
            while i < CAP {
                if let Some((kk, _)) = &self.slots[i] {
                    if kk == k {
                        return Some(i);
                    }
                }
                i += 1;
            }
            None
        }

        pub fn get(&self, k: &K) -> Option<&V> {
            match self.index_of(k) {
                Some(i) => self.slots[i].as_ref().map(|kv| &kv.1),
                None => None,
            }
        }

        pub fn get_mut(&mut self, k: &K) -> Option<&mut V> {
            match self.index_of(k) {
                Some(i) => self.slots[i].as_mut().map(|kv| &mut kv.1),
                None => None,
            }
        }

        pub fn contains_key(&self, k: &K) -> bool {
            self.index_of(k).is_some()
        }

        pub fn insert(&mut self, k: K, v: V) -> Option<V> {
            match self.entry(k) {
                Entry::Occupied(mut o) => Some(std::mem::replace(o.get_mut(), v)),
                Entry::Vacant(vac) => {
                    vac.insert(v);
                    None
                }
            }
        }

        pub fn remove(&mut self, k: &K) -> Option<V> {
            match self.index_of(k) {
                Some(i) => self.slots[i].take().map(|kv| kv.1),
                None => None,
            }
        }

        pub fn len(&self) -> usize {
            let mut n = 0;
            let mut i = 0;
            while i < CAP {
                if self.slots[i].is_some() {
                    n += 1;
                }
                i += 1;
            }
            n
        }

        pub fn entry(&mut self, k: K) -> Entry<'_, K, V> {
            match self.index_of(&k) {
                Some(i) => Entry::Occupied(OccupiedEntry { slot: &mut self.slots[i] }),
                None => {
                    let mut free = CAP;
                    let mut i = 0;
                    while i < CAP {
                        if free == CAP && self.slots[i].is_none() {
                            free = i;
                        }
                        i += 1;
                    }
                    assert!(free < CAP, "verif: map stand-in holds at most 2 keys");
                    Entry::Vacant(VacantEntry { slot: &mut self.slots[free], key: k })
                }
            }
        }
    }
}
