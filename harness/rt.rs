// Shared runtime of the verification harnesses: `crate::verif` under `cargo kani`.
//
// Everything here is *environment* (DESIGN.md 3.3): the virtual clock helpers, the
// nondeterministic permutation that stands in for `shuffle(thread_rng())`, and the stubs
// for randomness, SHA-1 and CRC-32C. Each stub is listed in the evidence of every check using it.


use std::time::Duration;

// ---------------------------------------------------------------------------------------------
// Clock
// ---------------------------------------------------------------------------------------------

pub(crate) mod clock {
    use std::time::Duration;

    pub(crate) use crate::time::CLOCK_MIN_SECS;

    /// Start the virtual clock at an arbitrary instant `>= one week` (what the real clock
    /// guarantees, see time.rs) and below ~31 years, with arbitrary sub-second part.
    pub(crate) fn start_symbolic() -> Duration {
        let secs: u64 = kani::any();
        let nanos: u32 = kani::any();
        kani::assume(secs >= CLOCK_MIN_SECS && secs < 1_000_000_000);
        kani::assume(nanos < 1_000_000_000);
        let d = Duration::new(secs, nanos);
        crate::time::set_now(d);
        d
    }

    /// Start at a fixed instant (for harnesses that are not about time).
    pub(crate) fn start_fixed() {
        crate::time::set_now(Duration::new(CLOCK_MIN_SECS + 1000, 0));
    }

    /// Let an arbitrary amount of time in `[0, max_secs]` seconds (ns resolution) pass.
    pub(crate) fn wait_symbolic(max_secs: u64) -> Duration {
        let secs: u64 = kani::any();
        let nanos: u32 = kani::any();
        kani::assume(secs <= max_secs);
        kani::assume(nanos < 1_000_000_000);
        kani::assume(secs < max_secs || nanos == 0);
        let d = Duration::new(secs, nanos);
        crate::time::advance(d);
        d
    }

    pub(crate) fn wait(d: Duration) {
        crate::time::advance(d);
    }

    pub(crate) fn now() -> Duration {
        crate::time::now_since_epoch()
    }
}

pub(crate) fn symbolic_duration(max_secs: u64) -> Duration {
    let secs: u64 = kani::any();
    let nanos: u32 = kani::any();
    kani::assume(secs <= max_secs);
    kani::assume(nanos < 1_000_000_000);
    kani::assume(secs < max_secs || nanos == 0);
    Duration::new(secs, nanos)
}

// ---------------------------------------------------------------------------------------------
// Permutation hook (H2): stands in for `ids.shuffle(&mut rand::thread_rng())`.
// Up to two arbitrary transpositions (identity included). The properties only rely on the
// result being *a permutation* of the block.
// ---------------------------------------------------------------------------------------------

pub(crate) fn permute(ids: &mut [u64]) {
    let n = ids.len();
    if n < 2 {
        return;
    }
    let a: usize = kani::any();
    let b: usize = kani::any();
    let c: usize = kani::any();
    let d: usize = kani::any();
    if a < n && b < n {
        ids.swap(a, b);
    }
    if c < n && d < n {
        ids.swap(c, d);
    }
}

// ---------------------------------------------------------------------------------------------
// Randomness: `rand::random::<T>()` drawn from a symbolic generator.
// ---------------------------------------------------------------------------------------------

pub(crate) struct SymRng;

impl rand::RngCore for SymRng {
    fn next_u32(&mut self) -> u32 {
        kani::any()
    }
    fn next_u64(&mut self) -> u64 {
        kani::any()
    }
    fn fill_bytes(&mut self, dest: &mut [u8]) {
        for b in dest.iter_mut() {
            *b = kani::any();
        }
    }
    fn try_fill_bytes(&mut self, dest: &mut [u8]) -> Result<(), rand::Error> {
        self.fill_bytes(dest);
        Ok(())
    }
}

/// Stub for `rand::random`: every draw is an arbitrary value of its type.
pub(crate) fn stub_random<T>() -> T
where
    rand::distributions::Standard: rand::distributions::Distribution<T>,
{
    use rand::distributions::Distribution;
    rand::distributions::Standard.sample(&mut SymRng)
}

// ---------------------------------------------------------------------------------------------
// CRC-32C (Castagnoli), bitwise reference. Stub for `crc32c::crc32c_append`, whose real
// implementation uses SSE4.2 intrinsics CBMC does not model.
// ---------------------------------------------------------------------------------------------

pub(crate) fn ref_crc32c_append(crc: u32, data: &[u8]) -> u32 {
    let mut crc = !crc;
    for &byte in data {
        crc ^= byte as u32;
        let mut k = 0;
        while k < 8 {
            crc = if crc & 1 != 0 {
                (crc >> 1) ^ 0x82F6_3B78
            } else {
                crc >> 1
            };
            k += 1;
        }
    }
    !crc
}

// ---------------------------------------------------------------------------------------------
// Small helpers
// ---------------------------------------------------------------------------------------------

/// Concrete, pairwise distinct 20-byte ids: id(k) has `k+1` in its last byte and `tag` in its first.
pub(crate) fn concrete_id(tag: u8, k: u8) -> crate::info_hash::InfoHash {
    let mut b = [0u8; 20];
    b[0] = tag;
    b[19] = k.wrapping_add(1);
    b.into()
}

pub(crate) fn concrete_addr_v4(k: u8) -> std::net::SocketAddr {
    std::net::SocketAddr::from((std::net::Ipv4Addr::new(10, 0, 0, k.wrapping_add(1)), 6881))
}
