// harnesses for timer (none yet)
