// harnesses for refresh (none yet)
