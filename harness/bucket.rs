// harnesses for bucket (none yet)
