// C08 — bucket step: one `Bucket::add_node` from an ARBITRARY bucket state (inductive step, so
// histories of any length are covered as long as the representation invariant holds:
// live handles pairwise distinct - re-asserted after the step).
//
// Slot occupancy: every slot holds its own concrete identity in an arbitrary *state* (never
// answered = what `status()` sees in an empty slot's placeholder, or answered/queried at symbolic
// ages with 0..3 unanswered queries). A free slot is therefore represented by a bad node with a
// unique identity instead of Bucket::new's shared zero-id placeholder; `add_node` treats the two
// alike unless the offered identity equals it. Slots named `ph` are the real placeholders.
use super::*;
use crate::node::verif::symbolic_slot_with;
use crate::verif::{clock, concrete_addr_v4, concrete_id};

/// identity key of a slot: ids used here are concrete and differ in their last byte
/// (1..=8 slot identities, 9 newcomer, 0 placeholder)
fn key(n: &Node) -> u8 {
    n.id().as_ref()[19]
}

/// Slots `lo..hi` arbitrary; the others are filled by `fill`: 0 = Bucket::new's placeholder,
/// 1 = good, 2 = questionable.
pub(crate) fn symbolic_bucket(tag: u8, sym_lo: usize, sym_hi: usize, fill: u8, coarse: bool) -> Bucket {
    let mut b = Bucket::new();
    let mut j = 0;
    while j < MAX_BUCKET_SIZE {
        let id = concrete_id(tag, j as u8);
        let addr = concrete_addr_v4(j as u8);
        if j >= sym_lo && j < sym_hi {
            b.nodes[j] = symbolic_slot_with(id, addr, coarse);
        } else {
            match fill {
                1 => b.nodes[j] = Node::as_good(id, addr),
                2 => b.nodes[j] = Node::as_questionable(id, addr),
                _ => {}
            }
        }
        j += 1;
    }
    b
}

/// `offer_ident`: 0..=7 = the identity stored in that slot, 8 = an identity not in the bucket.
fn step(sym_lo: usize, sym_hi: usize, fill: u8, offer_ident: u8, coarse: bool) {
    // ---- symbolic inputs -------------------------------------------------------------------
    let offer_kind: u8 = kani::any::<u8>() % 3; // 0 = as responder (good), 1 = hearsay (questionable), 2 = bad
    clock::start_fixed();
    let mut bucket = symbolic_bucket(1, sym_lo, sym_hi, fill, coarse);

    // ---- pre-state -------------------------------------------------------------------------
    let mut pre_key = [0u8; MAX_BUCKET_SIZE];
    let mut pre_status = [NodeStatus::Bad; MAX_BUCKET_SIZE];
    let mut has_free_or_bad = false;
    let mut j = 0;
    while j < MAX_BUCKET_SIZE {
        pre_key[j] = key(&bucket.nodes[j]);
        pre_status[j] = bucket.nodes[j].status();
        if pre_status[j] == NodeStatus::Bad {
            has_free_or_bad = true;
        }
        j += 1;
    }

    let oid = concrete_id(1, offer_ident);
    let oaddr = concrete_addr_v4(offer_ident);
    let okey = oid.as_ref()[19];
    let new_node = match offer_kind {
        0 => Node::as_good(oid, oaddr),
        1 => Node::as_questionable(oid, oaddr),
        _ => Node::as_bad(oid, oaddr),
    };
    let new_status = new_node.status();
    let mut already_in = false; // identity already stored (live or bad-but-remembered)
    let mut exists_worse = false;
    j = 0;
    while j < MAX_BUCKET_SIZE {
        if pre_key[j] == okey {
            already_in = true;
        }
        if pre_status[j] < new_status {
            exists_worse = true;
        }
        j += 1;
    }

    // ---- the step --------------------------------------------------------------------------
    let admitted = bucket.add_node(new_node);

    // ---- post-conditions -------------------------------------------------------------------
    let mut post_key = [0u8; MAX_BUCKET_SIZE];
    let mut post_status = [NodeStatus::Bad; MAX_BUCKET_SIZE];
    j = 0;
    while j < MAX_BUCKET_SIZE {
        post_key[j] = key(&bucket.nodes[j]);
        post_status[j] = bucket.nodes[j].status();
        j += 1;
    }
    let mut gone = 0u32;
    let mut new_present_live = 0u32;
    let mut unchanged = true;
    j = 0;
    while j < MAX_BUCKET_SIZE {
        let pk = pre_key[j];
        // is the identity that was in slot j (if live) still stored, live?
        if pre_status[j] != NodeStatus::Bad {
            let mut copies = 0u32;
            let mut m = 0;
            while m < MAX_BUCKET_SIZE {
                if post_key[m] == pk && post_status[m] != NodeStatus::Bad {
                    copies += 1;
                }
                m += 1;
            }
            assert!(copies <= 1, "C08: an (id, address) pair appears twice in a bucket");
            if copies == 0 {
                gone += 1;
                assert!(new_status != NodeStatus::Bad, "C08: offering a bad node removed a live node");
                assert!(pk != okey, "C08: a repeat offer removed the node itself");
                assert!(pre_status[j] < new_status, "C08: a node was replaced by one of equal or lower standing");
                assert!(!has_free_or_bad, "C08: a live node was evicted although the bucket had a free or bad slot");
            } else if pk != okey {
                // other nodes keep their slot and standing
                assert!(post_key[j] == pk && post_status[j] == pre_status[j], "C08: an uninvolved node was moved or changed");
            } else {
                // repeat offer: updated in place, never downgraded
                assert!(post_key[j] == pk && post_status[j] >= pre_status[j], "C08: a repeat offer moved or downgraded the stored node");
            }
        }
        if post_key[j] != pk || post_status[j] != pre_status[j] {
            unchanged = false;
        }
        if post_key[j] == okey && post_status[j] != NodeStatus::Bad {
            new_present_live += 1;
        }
        j += 1;
    }
    assert!(gone <= 1, "C08: one offer removed more than one node");
    assert!(new_present_live <= 1, "C08: the offered node is stored twice");

    if new_status == NodeStatus::Bad {
        assert!(unchanged, "C08: offering a bad node changed the bucket");
    } else if already_in || has_free_or_bad || exists_worse {
        // room, a worse node, or already there => admitted
        assert!(admitted, "C08: offered node refused although room or a worse node existed");
        assert!(new_present_live == 1, "C08: offered node reported admitted but is not stored");
    } else {
        // full bucket of nodes of equal or better standing rejects the newcomer, unchanged
        assert!(!admitted, "C08: a full bucket of equal-or-better nodes reported the newcomer as admitted");
        assert!(unchanged && new_present_live == 0, "C08: a full bucket of equal-or-better nodes was modified");
    }
    kani::cover!(admitted && new_status != NodeStatus::Bad, "an offer was admitted");
    kani::cover!(new_status == NodeStatus::Bad, "a bad offer was made");
}

// ---- quick tier: halves -------------------------------------------------------------------------

#[kani::proof]
#[kani::unwind(21)]
fn c08_bucket_lo4_ph_fresh() {
    step(0, 4, 0, 8, true);
}

#[kani::proof]
#[kani::unwind(21)]
fn c08_bucket_lo4_ph_repeat2() {
    step(0, 4, 0, 2, true);
}

#[kani::proof]
#[kani::unwind(21)]
fn c08_bucket_hi4_good_fresh() {
    step(4, 8, 1, 8, true);
}

#[kani::proof]
#[kani::unwind(21)]
fn c08_bucket_hi4_questionable_fresh() {
    step(4, 8, 2, 8, true);
}

#[kani::proof]
#[kani::unwind(21)]
fn c08_bucket_lo4_questionable_repeat0() {
    step(0, 4, 2, 0, true);
}

// ---- thorough tier: all 8 slots arbitrary at once ------------------------------------------------

#[kani::proof]
#[kani::unwind(21)]
fn c08_bucket_all8_fresh() {
    step(0, 8, 0, 8, true);
}

#[kani::proof]
#[kani::unwind(21)]
fn c08_bucket_all8_repeat0() {
    step(0, 8, 0, 0, true);
}

#[kani::proof]
#[kani::unwind(21)]
fn c08_bucket_all8_repeat5() {
    step(0, 8, 0, 5, true);
}

#[kani::proof]
#[kani::unwind(21)]
fn c08_bucket_all8_repeat7() {
    step(0, 8, 0, 7, true);
}

// ---- thorough tier: every second in [0, 2 h] for the ages (fine), four slots at a time -----------

#[kani::proof]
#[kani::unwind(21)]
fn c08_bucket_fine_lo4_ph_fresh() {
    step(0, 4, 0, 8, false);
}

#[kani::proof]
#[kani::unwind(21)]
fn c08_bucket_fine_hi4_questionable_fresh() {
    step(4, 8, 2, 8, false);
}

#[kani::proof]
#[kani::unwind(21)]
fn c08_bucket_fine_lo4_good_repeat1() {
    step(0, 4, 1, 1, false);
}

/// Used by the table harnesses to fill a bucket (private field access lives here).
pub(crate) fn set_slot(b: &mut Bucket, j: usize, n: Node) {
    b.nodes[j] = n;
}
