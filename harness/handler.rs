// handler.rs is not encodable for the solver (DESIGN.md F7). The functions here are NATIVE-ONLY
// validation runs (role native-validation in lib/registry.py): the real DhtHandler is driven with a
// recording socket on pseudo-random inputs by the native replay runner. They complement the
// solver-decided codec-level checks with evidence that the handler applies the limits those checks
// read from the code; they do not decide a property.
use super::*;
use crate::message::GetPeersRequest;
use crate::SocketTrait;
use async_trait::async_trait;
use std::future::Future;
use std::io;
use std::net::{Ipv4Addr, Ipv6Addr};
use std::pin::pin;
use std::task::{Context, Poll, Waker};

struct CaptureSocket {
    local_addr: SocketAddr,
    sent: Arc<Mutex<Vec<(Vec<u8>, SocketAddr)>>>,
}

#[async_trait]
impl SocketTrait for CaptureSocket {
    async fn send_to(&self, buf: &[u8], target: &SocketAddr) -> io::Result<()> {
        self.sent.lock().unwrap().push((buf.to_vec(), *target));
        Ok(())
    }
    async fn recv_from(&self, _buf: &mut [u8]) -> io::Result<(usize, SocketAddr)> {
        std::future::pending().await
    }
    fn local_addr(&self) -> io::Result<SocketAddr> {
        Ok(self.local_addr)
    }
}

/// The handler's futures only await the recording socket: one poll completes them.
fn run<F: Future>(f: F) -> F::Output {
    let mut f = pin!(f);
    let mut cx = Context::from_waker(Waker::noop());
    match f.as_mut().poll(&mut cx) {
        Poll::Ready(v) => v,
        Poll::Pending => panic!("model: handler future did not complete in one poll"),
    }
}

fn v4(n: u16) -> SocketAddr {
    (Ipv4Addr::new(10, 0, (n >> 8) as u8, n as u8), 6881u16.wrapping_add(n)).into()
}

fn v6(n: u16) -> SocketAddr {
    (Ipv6Addr::new(0x2001, 0xdb8, 0, 0, 0, 0, 0, n.wrapping_add(1)), 6881u16.wrapping_add(n)).into()
}

/// NATIVE ONLY: a serving node with up to 8+8 contacts and up to 300+300 stored peers answers a
/// get_peers query (requester family, want, transaction id length 0..=32 pseudo-random): exactly
/// one datagram, to the requester, at most 1500 bytes, decodable.
#[kani::proof]
fn c17_handler_get_peers_reply_fits_native() {
    crate::verif::clock::start_fixed();
    let requester_v6: bool = kani::any();
    let want = match kani::any::<u8>() % 4 {
        0 => None,
        1 => Some(Want::V4),
        2 => Some(Want::V6),
        _ => Some(Want::Both),
    };
    let tid_len = (kani::any::<u8>() % 33) as usize;
    let n_contacts4 = (kani::any::<u8>() % 9) as usize;
    let n_contacts6 = (kani::any::<u8>() % 9) as usize;
    let n_peers4 = (kani::any::<u16>() % 240) as usize;
    let n_peers6 = (kani::any::<u16>() % 240) as usize;
    let own_v6: bool = kani::any();

    let this_node_id = NodeId::from([0x55; 20]);
    let info_hash = InfoHash::from([0x77; 20]);
    let sent = Arc::new(Mutex::new(Vec::new()));
    let local_addr: SocketAddr = if own_v6 {
        (Ipv6Addr::LOCALHOST, 6881).into()
    } else {
        (Ipv4Addr::LOCALHOST, 6881).into()
    };
    let socket = Socket::new(CaptureSocket { local_addr, sent: sent.clone() }).unwrap();
    // DhtHandler::new touches tokio's timer/watch machinery: give it a runtime context (native only)
    let rt = tokio::runtime::Builder::new_current_thread().enable_all().build().unwrap();
    let _guard = rt.enter();
    let (_command_tx, command_rx) = mpsc::unbounded_channel();
    let mut handler = DhtHandler::new(this_node_id, socket, false, HashSet::new(), HashSet::new(), None, command_rx);
    {
        let mut table = handler.routing_table.lock().unwrap();
        for n in 0..n_contacts4 {
            table.add_node(Node::as_good(this_node_id.flip_bit(2 * n), v4(n as u16)));
        }
        for n in 0..n_contacts6 {
            table.add_node(Node::as_good(this_node_id.flip_bit(2 * n + 1), v6(n as u16)));
        }
    }
    for n in 0..n_peers4 {
        assert!(handler.active_stores.add_item(info_hash, v4(1000 + n as u16)), "model: store refused a peer below capacity");
    }
    for n in 0..n_peers6 {
        assert!(handler.active_stores.add_item(info_hash, v6(1000 + n as u16)), "model: store refused a peer below capacity");
    }
    let requester = if requester_v6 { v6(5000) } else { v4(5000) };
    let mut tid = Vec::new();
    for _ in 0..tid_len {
        tid.push(kani::any::<u8>());
    }
    let query = Message {
        transaction_id: tid.clone(),
        body: MessageBody::Request(Request::GetPeers(GetPeersRequest { id: NodeId::from([0x99; 20]), info_hash, want })),
    };
    run(handler.handle_incoming(query, requester)).expect("model: handler returned an error");
    let sent = sent.lock().unwrap();
    assert!(sent.len() == 1 && sent[0].1 == requester, "model: get_peers query not answered by exactly one datagram to the requester");
    let reply = &sent[0].0;
    assert!(reply.len() <= 1500, "C17: the node emitted a get_peers reply longer than 1500 bytes");
    let decoded = Message::decode(reply);
    assert!(decoded.is_ok(), "C17: the node emitted a reply another instance cannot decode");
    if let Ok(Message { transaction_id, body: MessageBody::Response(r) }) = decoded {
        assert!(transaction_id == tid, "model: transaction id not echoed");
        assert!(r.values.iter().all(|a| a.is_ipv6() == requester_v6), "model: values of the wrong family");
        assert!(r.nodes_v4.len() <= 8 && r.nodes_v6.len() <= 8, "model: more than 8 nodes of a family");
    } else {
        panic!("model: reply is not a response");
    }
}
