// harnesses for handler (none yet)
