// harnesses for socket (none yet)
