// C20 — BEP42: InfoHash::from_ip(ip) passes the BEP42 validation for `ip`.
// C13/C14 (layer 2) — byte_array: ids are accepted iff exactly 20 bytes.
use super::*;
use crate::verif::{ref_crc32c_append, stub_random};
use std::net::{IpAddr, Ipv4Addr, Ipv6Addr};

/// Independent BEP42 validator (bittorrent.org/beps/bep_0042.html), own CRC-32C.
fn bep42_valid(ip: IpAddr, id: &[u8; 20]) -> bool {
    let r = id[19] & 0x7;
    let crc = match ip {
        IpAddr::V4(v4) => {
            let o = v4.octets();
            let m: [u8; 4] = [
                (o[0] & 0x03) | (r << 5),
                o[1] & 0x0f,
                o[2] & 0x3f,
                o[3] & 0xff,
            ];
            ref_crc32c_append(0, &m)
        }
        IpAddr::V6(v6) => {
            let o = v6.octets();
            let m: [u8; 8] = [
                (o[0] & 0x01) | (r << 5),
                o[1] & 0x03,
                o[2] & 0x07,
                o[3] & 0x0f,
                o[4] & 0x1f,
                o[5] & 0x3f,
                o[6] & 0x7f,
                o[7] & 0xff,
            ];
            ref_crc32c_append(0, &m)
        }
    };
    // first 21 bits of the id == first 21 bits of the crc
    id[0] == (crc >> 24) as u8
        && id[1] == ((crc >> 16) & 0xff) as u8
        && (id[2] & 0xf8) == (((crc >> 8) & 0xf8) as u8)
}

#[kani::proof]
#[kani::unwind(21)]
#[kani::stub(rand::random, crate::verif::stub_random)]
#[kani::stub(crc32c::crc32c_append, crate::verif::ref_crc32c_append)]
fn c20_from_ip_v4() {
    let octets: [u8; 4] = kani::any();
    let ip = IpAddr::V4(Ipv4Addr::from(octets));
    let id: [u8; 20] = InfoHash::from_ip(ip).into();
    kani::cover!(id[19] & 7 == 5, "r=5 reachable");
    assert!(bep42_valid(ip, &id), "C20: id fails BEP42 validation (IPv4)");
}

#[kani::proof]
#[kani::unwind(21)]
#[kani::stub(rand::random, crate::verif::stub_random)]
#[kani::stub(crc32c::crc32c_append, crate::verif::ref_crc32c_append)]
fn c20_from_ip_v6() {
    let octets: [u8; 16] = kani::any();
    let ip = IpAddr::V6(Ipv6Addr::from(octets));
    let id: [u8; 20] = InfoHash::from_ip(ip).into();
    kani::cover!(id[19] & 7 == 2, "r=2 reachable");
    assert!(bep42_valid(ip, &id), "C20: id fails BEP42 validation (IPv6)");
}

/// Oracle validation: the validator accepts the five published BEP42 example ids and rejects
/// them after a one-bit change in the first 21 bits.
#[kani::proof]
#[kani::unwind(21)]
fn c20_oracle_accepts_bep42_vectors() {
    let vectors: [([u8; 4], [u8; 3], u8); 5] = [
        ([124, 31, 75, 21], [0x5f, 0xbf, 0xbf], 0x01),
        ([21, 75, 31, 124], [0x5a, 0x3c, 0xe9], 0x56),
        ([65, 23, 51, 170], [0xa5, 0xd4, 0x32], 0x16),
        ([84, 124, 73, 14], [0x1b, 0x03, 0x21], 0x41),
        ([43, 213, 53, 83], [0xe5, 0x6f, 0x6c], 0x5a),
    ];
    let k: usize = kani::any();
    kani::assume(k < 5);
    let (ip, pre, last) = vectors[k];
    let mut id = [0u8; 20];
    id[0] = pre[0];
    id[1] = pre[1];
    id[2] = pre[2];
    id[19] = last;
    let ip = IpAddr::V4(Ipv4Addr::from(ip));
    assert!(bep42_valid(ip, &id), "oracle rejects a published BEP42 vector");
    let bit: u8 = kani::any();
    kani::assume(bit < 21);
    id[(bit / 8) as usize] ^= 0x80 >> (bit % 8);
    assert!(!bep42_valid(ip, &id), "oracle accepts a corrupted id");
}
