// Virtual clock: replaces `crate::time` under `cargo kani` (hook H4, see DESIGN.md 3.2).
//
// Same API as the real `time::Instant` (now, checked_sub, + Duration, - Duration, Instant - Instant,
// Ord, Debug). The instant is stored as a `Duration` since a virtual epoch so that no 64-bit
// division is needed; `now()` reads a harness-controlled variable. Semantics mirror std:
// `Instant - Instant` saturates at zero, `Instant - Duration` / `Instant + Duration` panic on
// under/overflow, `checked_sub` returns None on underflow.
use std::{
    fmt,
    ops::{Add, Sub},
    time::Duration,
};

#[derive(Clone, Copy, PartialOrd, PartialEq, Ord, Eq)]
pub(crate) struct Instant {
    since_epoch: Duration,
}

// One week, like the real module's OFFSET: the real clock never reads less than this.
pub(crate) const CLOCK_MIN_SECS: u64 = 7 * 24 * 60 * 60;

static mut NOW: Duration = Duration::from_secs(CLOCK_MIN_SECS);

/// Set the virtual clock (harness only).
pub(crate) fn set_now(d: Duration) {
    unsafe { NOW = d }
}

/// Advance the virtual clock (harness only).
pub(crate) fn advance(d: Duration) {
    unsafe { NOW = NOW.checked_add(d).expect("virtual clock overflow") }
}

pub(crate) fn now_since_epoch() -> Duration {
    unsafe { NOW }
}

impl Instant {
    pub fn now() -> Self {
        Self {
            since_epoch: now_since_epoch(),
        }
    }

    pub fn checked_sub(&self, rhs: Duration) -> Option<Self> {
        self.since_epoch
            .checked_sub(rhs)
            .map(|since_epoch| Self { since_epoch })
    }
}

impl Add<Duration> for Instant {
    type Output = Self;

    fn add(self, rhs: Duration) -> Self {
        Self {
            since_epoch: self
                .since_epoch
                .checked_add(rhs)
                .expect("overflow when adding duration to instant"),
        }
    }
}

impl Sub<Duration> for Instant {
    type Output = Self;

    fn sub(self, rhs: Duration) -> Self {
        Self {
            since_epoch: self
                .since_epoch
                .checked_sub(rhs)
                .expect("overflow when subtracting duration from instant"),
        }
    }
}

impl Sub<Instant> for Instant {
    type Output = Duration;

    fn sub(self, rhs: Instant) -> Duration {
        self.since_epoch.saturating_sub(rhs.since_epoch)
    }
}

impl fmt::Debug for Instant {
    fn fmt(&self, _f: &mut fmt::Formatter<'_>) -> Result<(), fmt::Error> {
        Ok(())
    }
}
