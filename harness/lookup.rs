// harnesses for lookup (none yet)
