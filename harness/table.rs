// C09 — nearest-node enumeration; C08 — table shape (placement, split); C12 — hearsay admission.
use super::*;
use crate::bucket::verif::symbolic_bucket;
use crate::node::verif::symbolic_slot_with;
use crate::verif::{clock, concrete_addr_v4};

// ---------------------------------------------------------------------------------------------
// C09 (a): `next_bucket_index`, one symbolic step of the alternating walk.
//
// V(s, c) = set of bucket indices visited when the walk that started at `s` stands at `c`:
//   every j with |j - s| < |c - s|, plus c itself, plus (if c is left of s) its mirror 2s - c.
// Step obligations (together with V(s, s) = {s} they give, by induction over the walk, that every
// index in [0, 160) is visited exactly once, nearest first, for every start including 160):
//   next = Some(n)  =>  n < 160, n not in V(s, c), and V(s, n) = V(s, c) + {n}
//   next = None     =>  V(s, c) contains all of [0, 160)
// ---------------------------------------------------------------------------------------------

fn dist(a: usize, b: usize) -> usize {
    if a > b {
        a - b
    } else {
        b - a
    }
}

fn visited(s: usize, c: usize, j: usize) -> bool {
    if j >= MAX_BUCKETS {
        return false;
    }
    dist(j, s) < dist(c, s) || j == c || (c < s && j == s + (s - c))
}

#[kani::proof]
fn c09_next_bucket_index_step() {
    let s: usize = kani::any();
    let c: usize = kani::any();
    let i: usize = kani::any();
    kani::assume(s <= MAX_BUCKETS);
    // a walk position is the start itself or an index inside the table
    kani::assume(c == s || c < MAX_BUCKETS);
    kani::assume(i < MAX_BUCKETS);
    match next_bucket_index(MAX_BUCKETS, s, c) {
        Some(n) => {
            assert!(n < MAX_BUCKETS, "C09: walk leaves the table");
            assert!(!visited(s, c, n), "C09: walk visits a bucket index twice");
            assert!(
                visited(s, n, i) == (visited(s, c, i) || i == n),
                "C09: walk skips a bucket index or is not nearest-first"
            );
            // nearest first: nothing unvisited is strictly nearer to the start than n
            if !visited(s, c, i) {
                assert!(dist(i, s) >= dist(n, s), "C09: a nearer bucket index is visited later");
            }
        }
        None => {
            assert!(visited(s, c, i), "C09: walk ends before every bucket index was visited");
        }
    }
    kani::cover!(s == MAX_BUCKETS && c == s, "start at 160 (target = own id)");
    kani::cover!(c < s && s + (s - c) + 1 >= MAX_BUCKETS, "right side exhausted");
}

/// The whole walk from a symbolic start: it makes exactly as many moves as there are other bucket
/// indices (159 from a start inside the table, 160 from start 160) and then ends. With the step
/// harness (no index twice) this mechanises "every index exactly once".
#[kani::proof]
#[kani::unwind(163)]
fn c09_walk_length() {
    let s: usize = kani::any();
    kani::assume(s <= MAX_BUCKETS);
    let mut c = s;
    let mut moves = 0usize;
    let mut ended = false;
    let mut k = 0;
    while k < 161 {
        match next_bucket_index(MAX_BUCKETS, s, c) {
            Some(n) => {
                c = n;
                moves += 1;
            }
            None => {
                ended = true;
                break;
            }
        }
        k += 1;
    }
    assert!(ended, "C09: walk does not end after visiting every bucket index");
    assert!(moves == if s < MAX_BUCKETS { MAX_BUCKETS - 1 } else { MAX_BUCKETS }, "C09: walk visits a wrong number of bucket indices");
    kani::cover!(true, "end of harness reached");
}

// ---------------------------------------------------------------------------------------------
// Directly constructed tables (local id = 0...0, so a node's ideal bucket index is the number of
// leading zero bits of its id).
// ---------------------------------------------------------------------------------------------

/// ideal bucket index of slot j in bucket i of a table with `nb` buckets
fn slot_ideal(nb: usize, i: usize, j: usize) -> usize {
    if i + 1 < nb {
        i
    } else {
        // last bucket: assorted nodes, ideal indices >= nb - 1, not sorted, with repeats
        const EXTRA: [usize; 8] = [0, 0, 1, 2, 5, 60, 120, 1];
        let v = (nb - 1) + EXTRA[j];
        if v > 151 {
            151
        } else {
            v
        }
    }
}

fn slot_key(i: usize, j: usize) -> u8 {
    (i * 8 + j) as u8
}

/// Table with `nb` buckets whose every slot holds its own concrete identity (placement invariant
/// respected) in an arbitrary state (coarse ages), see bucket.rs / DESIGN.md F21.
fn symbolic_table(nb: usize) -> RoutingTable {
    symbolic_table_n(nb, 8)
}

/// as above, only the first `nsym` slots of each bucket are arbitrary; the rest are empty placeholders
fn symbolic_table_n(nb: usize, nsym: usize) -> RoutingTable {
    let mut t = RoutingTable::new(NodeId::from([0u8; 20]));
    t.buckets.clear();
    let mut i = 0;
    while i < nb {
        let mut b = Bucket::new();
        let mut j = 0;
        while j < 8 {
            let id = crate::verif::id_with_prefix(slot_ideal(nb, i, j), slot_key(i, j));
            if j < nsym {
                let n = symbolic_slot_with(id, concrete_addr_v4(slot_key(i, j)), true);
                crate::bucket::verif::set_slot(&mut b, j, n);
            }
            j += 1;
        }
        t.buckets.push(b);
        i += 1;
    }
    t
}

// (The whole-enumeration harness over table contents - `ClosestNodes::next` - did not terminate
// and was removed: DESIGN.md F23. The set-up of the enumeration is checked by `closest_setup`.)

// (One `add_node` on a heap-backed table with symbolic slot state, including the split, did not
// terminate - neither with symbolic nor with concrete table contents - and was removed: DESIGN.md 8.3.)

/// One pass over the table: standing of every live node by identity key, with the shape
/// invariant (placement, no own id, no router address, no duplicate) asserted on the way.
fn survey(t: &RoutingTable, router: Option<SocketAddr>) -> [Option<NodeStatus>; 64] {
    let nb = t.buckets.len();
    let mut by_key: [Option<NodeStatus>; 64] = [None; 64];
    let mut i = 0;
    while i < nb {
        for node in t.buckets[i].iter() {
            let s = node.status();
            if s != NodeStatus::Bad {
                let lz = leading_bit_count(t.node_id, node.id());
                assert!(lz != MAX_BUCKETS, "C08: the table lists the node's own id");
                let want = if lz < nb { lz } else { nb - 1 };
                assert!(want == i, "C08: a node sits in a bucket that does not match its shared prefix");
                if let Some(r) = router {
                    assert!(node.addr() != r, "C08: the table lists a router address");
                }
                let key = node.id().as_ref()[19] as usize;
                assert!(key < 64 && by_key[key].is_none(), "C08: an (id, address) pair appears twice in the table");
                by_key[key] = Some(s);
            }
        }
        i += 1;
    }
    by_key
}


// ---------------------------------------------------------------------------------------------
// C12: `add_nodes(responder, names)` - nodes merely named in a response are admitted at most as
// questionable; the local id and router addresses are never admitted whoever names them.
//
// Table: 2 buckets, local id 0..0. Bucket 0 (not splittable) holds identity E in an arbitrary state
// in its last slot and 7 free slots; bucket 1 is empty. To keep the formula small each instance
// causes at most one insertion: the responder is E itself (updated in place) unless the name under
// test is E. name kinds: 0 = fresh identity, 1 = the local id, 2 = a router's address (fresh id),
// 3 = E named by somebody else, 5 = a fresh id on the responder's own address.
// ---------------------------------------------------------------------------------------------

const E_KEY: u8 = 0; // identity key byte = E_KEY + 1

fn add_nodes_step(kind: u8) {
    clock::start_fixed();
    let nb = 2;
    let mut t = symbolic_table_n(nb, 0);
    let e_id = crate::verif::id_with_prefix(0, E_KEY);
    let e_addr = concrete_addr_v4(E_KEY);
    let existing = symbolic_slot_with(e_id, e_addr, true);
    let st0 = existing.status();
    let pre_existing = if st0 == NodeStatus::Bad { None } else { Some(st0) };
    crate::bucket::verif::set_slot(&mut t.buckets[0], 7, existing);
    let router = SocketAddr::from((std::net::Ipv4Addr::new(192, 0, 2, 1), 6881));
    // a second router address (other port on the same IP is NOT a router address)
    let router2 = SocketAddr::from((std::net::Ipv4Addr::new(192, 0, 2, 2), 6881));
    let same_ip_other_port = SocketAddr::from((std::net::Ipv4Addr::new(192, 0, 2, 1), 6882));
    if kind == 2 || kind == 6 || kind == 7 {
        // `routers` is the linear-scan stand-in of rt.rs under cfg(kani) (hook; std HashSet is not tractable, F4/F17)
        t.routers.insert(router2);
        t.routers.insert(router);
    }
    let (responder, responder_key) = if kind == 3 {
        (Node::as_good(crate::verif::id_with_prefix(0, 57), concrete_addr_v4(57)), 58usize)
    } else if kind == 6 {
        // the responder itself answers from a router address: it must not be admitted either
        (Node::as_good(crate::verif::id_with_prefix(0, 59), router), 60usize)
    } else {
        (Node::as_good(e_id, e_addr), E_KEY as usize + 1)
    };
    let name = match kind {
        1 => NodeHandle::new(NodeId::from([0u8; 20]), concrete_addr_v4(50)),
        2 => NodeHandle::new(crate::verif::id_with_prefix(0, 52), if kani::any::<bool>() { router } else { router2 }),
        7 => NodeHandle::new(crate::verif::id_with_prefix(0, 52), same_ip_other_port),
        3 => NodeHandle::new(e_id, e_addr),
        5 => NodeHandle::new(crate::verif::id_with_prefix(0, 55), e_addr),
        _ => NodeHandle::new(crate::verif::id_with_prefix(0, 54), concrete_addr_v4(54)),
    };
    let names = [name];
    t.add_nodes(responder, &names);
    let after = survey(&t, if kind == 2 || kind == 6 || kind == 7 { Some(router) } else { None });
    if kind == 6 {
        assert!(after[responder_key].is_none(), "C12: a responder on a router address was admitted");
    } else {
        assert!(after[responder_key] == Some(NodeStatus::Good), "C12: the responder itself is not reported good");
    }
    match kind {
        0 => assert!(after[55] == Some(NodeStatus::Questionable), "C12: a node merely named in a response is not admitted as questionable"),
        5 => assert!(after[56] == Some(NodeStatus::Questionable), "C12: a second id named on the responder's address is not admitted as questionable"),
        2 => assert!(after[53].is_none(), "C12: a router address was admitted by hearsay"),
        6 => assert!(after[55] == Some(NodeStatus::Questionable), "C12: a node named by a router's response is not admitted as questionable"),
        7 => assert!(after[53] == Some(NodeStatus::Questionable), "C12: a node sharing only the IP of a router is refused"),
        3 => match (pre_existing, after[E_KEY as usize + 1]) {
            (Some(a), Some(b)) => assert!(a == b, "C12: hearsay changed the standing of a stored node"),
            (None, Some(b)) => assert!(b == NodeStatus::Questionable, "C12: a dropped node named again is reported good"),
            (Some(_), None) => assert!(false, "C12: hearsay removed a stored node"),
            (None, None) => {}
        },
        _ => {} // own id: survey asserts it is nowhere
    }
    // nothing else appeared
    let mut live = 0;
    let mut k = 0;
    while k < 64 {
        if after[k].is_some() {
            live += 1;
        }
        k += 1;
    }
    assert!(live <= 2, "C12: more nodes were admitted than were named");
    kani::cover!(pre_existing == Some(NodeStatus::Questionable), "stored node questionable before");
    kani::cover!(true, "end of harness reached");
}

#[kani::proof]
#[kani::unwind(66)]
#[kani::stub(std::hash::RandomState::new, crate::verif::stub_random_state_new)]
fn c12_add_nodes_fresh_name() {
    add_nodes_step(0);
}

#[kani::proof]
#[kani::unwind(66)]
#[kani::stub(std::hash::RandomState::new, crate::verif::stub_random_state_new)]
fn c12_add_nodes_own_id() {
    add_nodes_step(1);
}


#[kani::proof]
#[kani::unwind(66)]
fn c12_add_nodes_router_address_named() {
    add_nodes_step(2);
}

#[kani::proof]
#[kani::unwind(66)]
fn c12_add_nodes_router_as_responder() {
    add_nodes_step(6);
}

#[kani::proof]
#[kani::unwind(66)]
fn c12_add_nodes_router_ip_other_port() {
    add_nodes_step(7);
}

/// Environment validation: the linear-scan stand-in for `routers` obeys the set laws btdht uses
/// (membership after insertion, no false positives, duplicates ignored).
#[kani::proof]
#[kani::unwind(6)]
fn c12_router_set_standin_laws() {
    let a = SocketAddr::from((std::net::Ipv4Addr::from(kani::any::<[u8; 4]>()), kani::any::<u16>()));
    let b = SocketAddr::from((std::net::Ipv4Addr::from(kani::any::<[u8; 4]>()), kani::any::<u16>()));
    let probe = SocketAddr::from((std::net::Ipv4Addr::from(kani::any::<[u8; 4]>()), kani::any::<u16>()));
    let mut s: crate::verif::vset::HashSet<SocketAddr> = Default::default();
    assert!(!s.contains(&probe) && s.is_empty(), "verif: empty stand-in set contains an address");
    let first = s.insert(a);
    let second = s.insert(b);
    assert!(first && second == (a != b), "verif: stand-in set insert result wrong");
    assert!(s.contains(&probe) == (probe == a || probe == b), "verif: stand-in set membership differs from set semantics");
    assert!(s.len() == if a == b { 1 } else { 2 }, "verif: stand-in set keeps duplicates");
    let t: crate::verif::vset::HashSet<SocketAddr> = s.iter().copied().collect();
    assert!(t.contains(&probe) == s.contains(&probe), "verif: stand-in set collect/iter loses an address");
    kani::cover!(a == b, "duplicate insertion");
    kani::cover!(probe == b && a != b, "probe hits the second element");
}

#[kani::proof]
#[kani::unwind(66)]
#[kani::stub(std::hash::RandomState::new, crate::verif::stub_random_state_new)]
fn c12_add_nodes_existing_by_hearsay() {
    add_nodes_step(3);
}

#[kani::proof]
#[kani::unwind(66)]
#[kani::stub(std::hash::RandomState::new, crate::verif::stub_random_state_new)]
fn c12_add_nodes_alias_of_responder() {
    add_nodes_step(5);
}

// ---------------------------------------------------------------------------------------------
// C09: how the enumeration is set up over a table (no `next()` walk, F23): it starts at the
// bucket index given by the prefix the target shares with the local id, hands the last
// ("assorted") bucket's nodes out by their own ideal index, and reads sorted buckets by index.
// ---------------------------------------------------------------------------------------------

fn closest_setup(nb: usize) {
    // every raw byte is a valid choice (keeps native sanity / fallback replay runs useful)
    let s: usize = (kani::any::<u8>() % 161) as usize;
    clock::start_fixed();
    let table = symbolic_table_n(nb, 8);
    // target = local id (all zero) with bit s flipped; s = 160: the local id itself
    let target = if s < MAX_BUCKETS {
        NodeId::from([0u8; 20]).flip_bit(s)
    } else {
        NodeId::from([0u8; 20])
    };
    let it = table.closest_nodes(target);
    assert!(it.start_index == s && it.current_index == s, "C09: enumeration does not start at the bucket sharing the target's prefix");
    // sorted buckets are read by their own index, the last bucket only through the assorted list
    let idx: usize = (kani::any::<u8>() % 160) as usize;
    let direct = bucket_iterator(&table.buckets, idx).is_some();
    assert!(direct == (idx + 1 < nb), "C09: a bucket index is read from the wrong bucket");
    match &it.assorted_nodes {
        Some(a) => {
            let mut j = 0;
            while j < 8 {
                // placeholders of the last bucket carry the zero id (ideal index 160) and are never live
                assert!(a[j].0 == leading_bit_count(table.node_id, a[j].1.id()), "C09: an assorted node is handed out at a wrong bucket index");
                assert!(!a[j].2, "C09: an assorted node is marked as already returned");
                j += 1;
            }
        }
        None => assert!(false, "C09: the last bucket's nodes are not enumerated"),
    }
    kani::cover!(s == MAX_BUCKETS, "target equals the local id");
    kani::cover!(nb < 2 || s + 1 < nb, "target inside the sorted buckets (if there are any)");
}

#[kani::proof]
#[kani::unwind(21)]
#[kani::stub(std::hash::RandomState::new, crate::verif::stub_random_state_new)]
fn c09_closest_setup_b3() {
    closest_setup(3);
}

#[kani::proof]
#[kani::unwind(21)]
#[kani::stub(std::hash::RandomState::new, crate::verif::stub_random_state_new)]
fn c09_closest_setup_b1() {
    closest_setup(1);
}

#[kani::proof]
#[kani::unwind(21)]
#[kani::stub(std::hash::RandomState::new, crate::verif::stub_random_state_new)]
fn c09_closest_setup_b2() {
    closest_setup(2);
}

// ---------------------------------------------------------------------------------------------
// C08 (table level, kernels): the arithmetic that decides where a node goes and when a bucket
// may split. Loop-free / 20-iteration integer code, all inputs symbolic.
// ---------------------------------------------------------------------------------------------

/// bucket_placement: the bucket index is the shared-prefix length, capped at the last bucket.
#[kani::proof]
fn c08_bucket_placement_kernel() {
    let same: usize = kani::any();
    let nb: usize = kani::any();
    kani::assume(same <= MAX_BUCKETS && nb >= 1 && nb <= MAX_BUCKETS);
    let p = bucket_placement(same, nb);
    assert!(p < nb, "C08: placement outside the table");
    assert!(p == if same < nb { same } else { nb - 1 }, "C08: a node is placed in a bucket that does not match its shared prefix");
    // only the last bucket (the one covering the local id) may split, and never beyond 160 buckets
    let idx: usize = kani::any();
    kani::assume(idx < nb);
    assert!(can_split_bucket(nb, idx) == (idx == nb - 1 && nb < MAX_BUCKETS), "C08: a bucket other than the last one splits, or the table grows beyond 160 buckets");
    kani::cover!(same >= nb, "node belongs to a bucket that does not exist yet");
}

/// leading_bit_count: number of leading bits two ids share = position of their first differing bit.
#[kani::proof]
#[kani::unwind(22)]
fn c08_leading_bit_count_kernel() {
    let a: [u8; 20] = kani::any();
    let bit: usize = kani::any();
    kani::assume(bit <= MAX_BUCKETS);
    let tail: [u8; 20] = kani::any();
    // b = a with bit `bit` flipped and arbitrary changes behind it (bit = 160: b = a)
    let mut b = a;
    if bit < MAX_BUCKETS {
        let byte = bit / 8;
        let mask: u8 = 0x80 >> (bit % 8);
        b[byte] ^= mask;
        // bits after `bit` in the same byte and all later bytes: arbitrary
        let low: u8 = mask.wrapping_sub(1);
        b[byte] = (b[byte] & !low) | (tail[byte] & low);
        let mut k = 0;
        while k < 20 {
            if k > byte {
                b[k] = tail[k];
            }
            k += 1;
        }
    }
    let n = leading_bit_count(NodeId::from(a), NodeId::from(b));
    assert!(n == bit, "C08: shared-prefix length computed wrongly");
    // flip_bit flips exactly that bit
    if bit < MAX_BUCKETS {
        let f: [u8; 20] = NodeId::from(a).flip_bit(bit).into();
        let mut k = 0;
        while k < 20 {
            let want = if k == bit / 8 { a[k] ^ (0x80 >> (bit % 8)) } else { a[k] };
            assert!(f[k] == want, "C08: flip_bit changes the wrong bit");
            k += 1;
        }
    }
    kani::cover!(bit == MAX_BUCKETS, "equal ids");
    kani::cover!(bit == 159, "ids differing in the last bit only");
}


/// C12: a stored contact is found only under its full (id, address) handle: a query that claims a
/// stored id from another address does not touch (and so cannot promote) the stored contact.
#[kani::proof]
#[kani::unwind(66)]
#[kani::stub(std::hash::RandomState::new, crate::verif::stub_random_state_new)]
fn c12_find_node_needs_id_and_address() {
    clock::start_fixed();
    let mut t = symbolic_table_n(2, 0);
    let e_id = crate::verif::id_with_prefix(0, E_KEY);
    let e_addr = concrete_addr_v4(E_KEY);
    crate::bucket::verif::set_slot(&mut t.buckets[0], 3, Node::as_questionable(e_id, e_addr));
    let other_addr = concrete_addr_v4(77);
    assert!(t.find_node_mut(&NodeHandle::new(e_id, other_addr)).is_none(), "C12: a contact is found under a foreign address");
    assert!(t.find_node_mut(&NodeHandle::new(crate::verif::id_with_prefix(0, 9), e_addr)).is_none(), "C12: a contact is found under a foreign id");
    match t.find_node_mut(&NodeHandle::new(e_id, e_addr)) {
        Some(n) => {
            n.remote_request();
            assert!(n.status() == NodeStatus::Good, "C10: a query from a known contact does not make it good");
        }
        None => assert!(false, "C12: a stored contact is not found under its own handle"),
    }
    kani::cover!(true, "end of harness reached");
}



/// C09, full table (160 buckets): there is no assorted bucket any more - every bucket, including
/// the last one, is read by its own index exactly once.
#[kani::proof]
#[kani::unwind(163)]
#[kani::stub(std::hash::RandomState::new, crate::verif::stub_random_state_new)]
fn c09_closest_setup_full_table() {
    let s: usize = (kani::any::<u8>() % 161) as usize;
    clock::start_fixed();
    let mut t = RoutingTable::new(NodeId::from([0u8; 20]));
    let mut i = 1;
    while i < MAX_BUCKETS {
        t.buckets.push(Bucket::new());
        i += 1;
    }
    let target = if s < MAX_BUCKETS { NodeId::from([0u8; 20]).flip_bit(s) } else { NodeId::from([0u8; 20]) };
    let it = t.closest_nodes(target);
    assert!(it.start_index == s && it.current_index == s, "C09: enumeration does not start at the bucket sharing the target's prefix");
    assert!(it.assorted_nodes.is_none(), "C09: a full table still hands out its last bucket a second time as assorted nodes");
    let idx: usize = (kani::any::<u8>() % 160) as usize;
    assert!(bucket_iterator(&t.buckets, idx).is_some(), "C09: a bucket of a full table is not read by its index");
    kani::cover!(true, "end of harness reached");
}

// ---------------------------------------------------------------------------------------------
// C08 (table level): one `add_node` that makes the last bucket split.
//
// Table: local id 0..0, 2 buckets with spare capacity in the `Vec<Bucket>` (no reallocation on the
// split's two pushes). Bucket 0 is empty; bucket 1 (last, covers the local id) is full: 8 concrete
// identities with ideal indices 1,1,2,3,6,61,121,2. `all_good` (symbolic) makes the eight all good
// or all questionable; the newcomer is good or questionable (symbolic) with an ideal index chosen
// symbolically from {1, 2, 6} - so that after the split it belongs to the new sorted bucket 1 or the
// new last bucket 2. Whenever the bucket rejects the newcomer (no strictly worse node), the split
// must happen, keep all eight (same standing), place everyone by prefix, and admit the newcomer.
// ---------------------------------------------------------------------------------------------

fn split_step(deep: bool) {
    clock::start_fixed();
    let all_good: bool = kani::any();
    let new_good: bool = kani::any();
    let sel: u8 = kani::any::<u8>() % 3;
    let mut t = RoutingTable::new(NodeId::from([0u8; 20]));
    let mut v: Vec<Bucket> = Vec::with_capacity(8);
    v.push(Bucket::new());
    let mut last = Bucket::new();
    // deep: everybody shares at least 3 bits with the local id, so the first split separates nobody
    // and a second (and third) split is needed
    const IDEAL: [usize; 8] = [1, 1, 2, 3, 6, 61, 121, 2];
    const IDEAL_DEEP: [usize; 8] = [3, 4, 3, 3, 6, 61, 121, 4];
    let mut j = 0;
    while j < 8 {
        let ideal = if deep { IDEAL_DEEP[j] } else { IDEAL[j] };
        let id = crate::verif::id_with_prefix(ideal, slot_key(1, j));
        let addr = concrete_addr_v4(slot_key(1, j));
        let n = if all_good { Node::as_good(id, addr) } else { Node::as_questionable(id, addr) };
        crate::bucket::verif::set_slot(&mut last, j, n);
        j += 1;
    }
    v.push(last);
    t.buckets = v;
    let new_ideal = if deep {
        match sel { 0 => 3, 1 => 4, _ => 6 }
    } else {
        match sel { 0 => 1, 1 => 2, _ => 6 }
    };
    let new_id = crate::verif::id_with_prefix(new_ideal, 40);
    let new_addr = concrete_addr_v4(40);
    let newcomer = if new_good { Node::as_good(new_id, new_addr) } else { Node::as_questionable(new_id, new_addr) };
    t.add_node(newcomer);
    let after = survey(&t, None);
    // the eight are all still there with their standing: a questionable bucket offered a good node
    // loses exactly one (strictly worse) node instead of splitting
    let replaced = !all_good && new_good;
    let mut kept = 0;
    let mut j = 0;
    while j < 8 {
        let key = slot_key(1, j) as usize + 1;
        if let Some(s) = after[key] {
            assert!(s == if all_good { NodeStatus::Good } else { NodeStatus::Questionable }, "C08: a split changed the standing of a stored node");
            kept += 1;
        }
        j += 1;
    }
    if replaced {
        assert!(kept == 7, "C08: offering a better node removed more or less than one worse node");
        assert!(t.buckets.len() == 2, "C08: the bucket split although a worse node could be replaced");
    } else {
        assert!(kept == 8, "C08: a node of equal or better standing was lost when its bucket split");
        assert!(t.buckets.len() >= 3, "C08: the bucket covering the local id did not split although it was full");
    }
    assert!(after[41] == Some(if new_good { NodeStatus::Good } else { NodeStatus::Questionable }),
            "C08: the offered node was not admitted although the split made room");
    kani::cover!(!replaced && sel == 0, "split, newcomer goes to the new sorted bucket");
    kani::cover!(!replaced && sel == 2, "split, newcomer goes to the new last bucket");
    kani::cover!(replaced, "no split: worse node replaced");
    std::mem::forget(t);
}

#[kani::proof]
#[kani::unwind(66)]
fn c08_table_split_step() {
    split_step(false);
}

#[kani::proof]
#[kani::unwind(66)]
fn c08_table_split_twice() {
    split_step(true);
}

// ---------------------------------------------------------------------------------------------
// C08 (table level, no split): one `RoutingTable::add_node` whose target is a full *sorted* bucket
// (bucket 0 of a 2-bucket table: it does not cover the local id and can never split). Seven slots
// hold good nodes, slot 5 holds a node of arbitrary standing; the newcomer is good or questionable.
// The table must behave exactly like the bucket rule: a strictly worse node is replaced by the
// newcomer, otherwise nothing changes; the table never grows.
// ---------------------------------------------------------------------------------------------
#[kani::proof]
#[kani::unwind(66)]
fn c08_table_add_full_sorted_bucket() {
    clock::start_fixed();
    let mut t = RoutingTable::new(NodeId::from([0u8; 20]));
    let mut v: Vec<Bucket> = Vec::with_capacity(2);
    let mut b0 = Bucket::new();
    let mut j = 0;
    while j < 8 {
        let id = crate::verif::id_with_prefix(0, slot_key(0, j));
        let addr = concrete_addr_v4(slot_key(0, j));
        let n = if j == 5 { symbolic_slot_with(id, addr, true) } else { Node::as_good(id, addr) };
        crate::bucket::verif::set_slot(&mut b0, j, n);
        j += 1;
    }
    v.push(b0);
    v.push(Bucket::new());
    t.buckets = v;
    let before = survey(&t, None);
    let weak = before[slot_key(0, 5) as usize + 1];
    let new_good: bool = kani::any();
    let new_id = crate::verif::id_with_prefix(0, 40);
    let new_addr = concrete_addr_v4(40);
    t.add_node(if new_good { Node::as_good(new_id, new_addr) } else { Node::as_questionable(new_id, new_addr) });
    let after = survey(&t, None);
    assert!(t.buckets.len() == 2, "C08: a bucket that does not cover the local id was split");
    let new_rank = if new_good { 2 } else { 1 };
    let weak_rank = match weak { Some(NodeStatus::Good) => 2, Some(NodeStatus::Questionable) => 1, _ => 0 };
    let mut k = 0;
    while k < 64 {
        let is_weak = k == slot_key(0, 5) as usize + 1;
        if k == 41 {
            if weak_rank < new_rank {
                assert!(after[k] == Some(if new_good { NodeStatus::Good } else { NodeStatus::Questionable }), "C08: the offered node was not admitted although a worse node (or a free slot) exists in its bucket");
            } else {
                assert!(after[k].is_none(), "C08: a full bucket of equal-or-better nodes admitted a newcomer");
            }
        } else if is_weak && weak_rank < new_rank {
            assert!(after[k].is_none(), "C08: the offered node was admitted without replacing the worse node");
        } else {
            assert!(after[k] == before[k], "C08: offering a node removed or changed a node of equal or better standing");
        }
        k += 1;
    }
    kani::cover!(weak_rank == 1 && new_good, "questionable node replaced by a good newcomer");
    kani::cover!(weak_rank == 2, "full bucket of good nodes");
    kani::cover!(weak_rank == 0, "bad / free slot taken");
    std::mem::forget(t);
}
