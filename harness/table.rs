// C09 — nearest-node enumeration; C08 — table shape (placement, split); C12 — hearsay admission.
use super::*;
use crate::bucket::verif::symbolic_bucket;
use crate::node::verif::symbolic_slot_with;
use crate::verif::{clock, concrete_addr_v4};

// ---------------------------------------------------------------------------------------------
// C09 (a): `next_bucket_index`, one symbolic step of the alternating walk.
//
// V(s, c) = set of bucket indices visited when the walk that started at `s` stands at `c`:
//   every j with |j - s| < |c - s|, plus c itself, plus (if c is left of s) its mirror 2s - c.
// Step obligations (together with V(s, s) = {s} they give, by induction over the walk, that every
// index in [0, 160) is visited exactly once, nearest first, for every start including 160):
//   next = Some(n)  =>  n < 160, n not in V(s, c), and V(s, n) = V(s, c) + {n}
//   next = None     =>  V(s, c) contains all of [0, 160)
// ---------------------------------------------------------------------------------------------

fn dist(a: usize, b: usize) -> usize {
    if a > b {
        a - b
    } else {
        b - a
    }
}

fn visited(s: usize, c: usize, j: usize) -> bool {
    if j >= MAX_BUCKETS {
        return false;
    }
    dist(j, s) < dist(c, s) || j == c || (c < s && j == s + (s - c))
}

#[kani::proof]
fn c09_next_bucket_index_step() {
    let s: usize = kani::any();
    let c: usize = kani::any();
    let i: usize = kani::any();
    kani::assume(s <= MAX_BUCKETS);
    // a walk position is the start itself or an index inside the table
    kani::assume(c == s || c < MAX_BUCKETS);
    kani::assume(i < MAX_BUCKETS);
    match next_bucket_index(MAX_BUCKETS, s, c) {
        Some(n) => {
            assert!(n < MAX_BUCKETS, "C09: walk leaves the table");
            assert!(!visited(s, c, n), "C09: walk visits a bucket index twice");
            assert!(
                visited(s, n, i) == (visited(s, c, i) || i == n),
                "C09: walk skips a bucket index or is not nearest-first"
            );
            // nearest first: nothing unvisited is strictly nearer to the start than n
            if !visited(s, c, i) {
                assert!(dist(i, s) >= dist(n, s), "C09: a nearer bucket index is visited later");
            }
        }
        None => {
            assert!(visited(s, c, i), "C09: walk ends before every bucket index was visited");
        }
    }
    kani::cover!(s == MAX_BUCKETS && c == s, "start at 160 (target = own id)");
    kani::cover!(c < s && s + (s - c) + 1 >= MAX_BUCKETS, "right side exhausted");
}

/// The whole walk from a symbolic start: it makes exactly as many moves as there are other bucket
/// indices (159 from a start inside the table, 160 from start 160) and then ends. With the step
/// harness (no index twice) this mechanises "every index exactly once".
#[kani::proof]
#[kani::unwind(163)]
fn c09_walk_length() {
    let s: usize = kani::any();
    kani::assume(s <= MAX_BUCKETS);
    let mut c = s;
    let mut moves = 0usize;
    let mut ended = false;
    let mut k = 0;
    while k < 161 {
        match next_bucket_index(MAX_BUCKETS, s, c) {
            Some(n) => {
                c = n;
                moves += 1;
            }
            None => {
                ended = true;
                break;
            }
        }
        k += 1;
    }
    assert!(ended, "C09: walk does not end after visiting every bucket index");
    assert!(moves == if s < MAX_BUCKETS { MAX_BUCKETS - 1 } else { MAX_BUCKETS }, "C09: walk visits a wrong number of bucket indices");
    kani::cover!(true, "end of harness reached");
}

// ---------------------------------------------------------------------------------------------
// Directly constructed tables (local id = 0...0, so a node's ideal bucket index is the number of
// leading zero bits of its id).
// ---------------------------------------------------------------------------------------------

/// ideal bucket index of slot j in bucket i of a table with `nb` buckets
fn slot_ideal(nb: usize, i: usize, j: usize) -> usize {
    if i + 1 < nb {
        i
    } else {
        // last bucket: assorted nodes, ideal indices >= nb - 1, not sorted, with repeats
        const EXTRA: [usize; 8] = [0, 0, 1, 2, 5, 60, 120, 1];
        let v = (nb - 1) + EXTRA[j];
        if v > 151 {
            151
        } else {
            v
        }
    }
}

fn slot_key(i: usize, j: usize) -> u8 {
    (i * 8 + j) as u8
}

/// Table with `nb` buckets whose every slot holds its own concrete identity (placement invariant
/// respected) in an arbitrary state (coarse ages), see bucket.rs / DESIGN.md F21.
fn symbolic_table(nb: usize) -> RoutingTable {
    symbolic_table_n(nb, 8)
}

/// as above, only the first `nsym` slots of each bucket are arbitrary; the rest are empty placeholders
fn symbolic_table_n(nb: usize, nsym: usize) -> RoutingTable {
    let mut t = RoutingTable::new(NodeId::from([0u8; 20]));
    t.buckets.clear();
    let mut i = 0;
    while i < nb {
        let mut b = Bucket::new();
        let mut j = 0;
        while j < 8 {
            let id = crate::verif::id_with_prefix(slot_ideal(nb, i, j), slot_key(i, j));
            if j < nsym {
                let n = symbolic_slot_with(id, concrete_addr_v4(slot_key(i, j)), true);
                crate::bucket::verif::set_slot(&mut b, j, n);
            }
            j += 1;
        }
        t.buckets.push(b);
        i += 1;
    }
    t
}

// (The whole-enumeration harness over table contents - `ClosestNodes::next` - did not terminate
// and was removed: DESIGN.md F23. The set-up of the enumeration is checked by `closest_setup`.)

// (One `add_node` on a heap-backed table with symbolic slot state, including the split, did not
// terminate - neither with symbolic nor with concrete table contents - and was removed: DESIGN.md 8.3.)

/// One pass over the table: standing of every live node by identity key, with the shape
/// invariant (placement, no own id, no router address, no duplicate) asserted on the way.
fn survey(t: &RoutingTable, router: Option<SocketAddr>) -> [Option<NodeStatus>; 64] {
    let nb = t.buckets.len();
    let mut by_key: [Option<NodeStatus>; 64] = [None; 64];
    let mut i = 0;
    while i < nb {
        for node in t.buckets[i].iter() {
            let s = node.status();
            if s != NodeStatus::Bad {
                let lz = leading_bit_count(t.node_id, node.id());
                assert!(lz != MAX_BUCKETS, "C08: the table lists the node's own id");
                let want = if lz < nb { lz } else { nb - 1 };
                assert!(want == i, "C08: a node sits in a bucket that does not match its shared prefix");
                if let Some(r) = router {
                    assert!(node.addr() != r, "C08: the table lists a router address");
                }
                let key = node.id().as_ref()[19] as usize;
                assert!(key < 64 && by_key[key].is_none(), "C08: an (id, address) pair appears twice in the table");
                by_key[key] = Some(s);
            }
        }
        i += 1;
    }
    by_key
}


// ---------------------------------------------------------------------------------------------
// C12: `add_nodes(responder, names)` - nodes merely named in a response are admitted at most as
// questionable; the local id and router addresses are never admitted whoever names them.
//
// Table: 2 buckets, local id 0..0. Bucket 0 (not splittable) holds identity E in an arbitrary state
// in its last slot and 7 free slots; bucket 1 is empty. To keep the formula small each instance
// causes at most one insertion: the responder is E itself (updated in place) unless the name under
// test is E. name kinds: 0 = fresh identity, 1 = the local id, 2 = a router's address (fresh id),
// 3 = E named by somebody else, 5 = a fresh id on the responder's own address.
// ---------------------------------------------------------------------------------------------

const E_KEY: u8 = 0; // identity key byte = E_KEY + 1

fn add_nodes_step(kind: u8) {
    clock::start_fixed();
    let nb = 2;
    let mut t = symbolic_table_n(nb, 0);
    let e_id = crate::verif::id_with_prefix(0, E_KEY);
    let e_addr = concrete_addr_v4(E_KEY);
    let existing = symbolic_slot_with(e_id, e_addr, true);
    let st0 = existing.status();
    let pre_existing = if st0 == NodeStatus::Bad { None } else { Some(st0) };
    crate::bucket::verif::set_slot(&mut t.buckets[0], 7, existing);
    let router = SocketAddr::from((std::net::Ipv4Addr::new(192, 0, 2, 1), 6881));
    if kind == 2 {
        // (instance not registered: the std HashSet behind `routers` did not terminate, F4/F17)
        t.routers.insert(router);
    }
    let (responder, responder_key) = if kind == 3 {
        (Node::as_good(crate::verif::id_with_prefix(0, 57), concrete_addr_v4(57)), 58usize)
    } else {
        (Node::as_good(e_id, e_addr), E_KEY as usize + 1)
    };
    let name = match kind {
        1 => NodeHandle::new(NodeId::from([0u8; 20]), concrete_addr_v4(50)),
        2 => NodeHandle::new(crate::verif::id_with_prefix(0, 52), router),
        3 => NodeHandle::new(e_id, e_addr),
        5 => NodeHandle::new(crate::verif::id_with_prefix(0, 55), e_addr),
        _ => NodeHandle::new(crate::verif::id_with_prefix(0, 54), concrete_addr_v4(54)),
    };
    let names = [name];
    t.add_nodes(responder, &names);
    let after = survey(&t, if kind == 2 { Some(router) } else { None });
    assert!(after[responder_key] == Some(NodeStatus::Good), "C12: the responder itself is not reported good");
    match kind {
        0 => assert!(after[55] == Some(NodeStatus::Questionable), "C12: a node merely named in a response is not admitted as questionable"),
        5 => assert!(after[56] == Some(NodeStatus::Questionable), "C12: a second id named on the responder's address is not admitted as questionable"),
        2 => assert!(after[53].is_none(), "C12: a router address was admitted by hearsay"),
        3 => match (pre_existing, after[E_KEY as usize + 1]) {
            (Some(a), Some(b)) => assert!(a == b, "C12: hearsay changed the standing of a stored node"),
            (None, Some(b)) => assert!(b == NodeStatus::Questionable, "C12: a dropped node named again is reported good"),
            (Some(_), None) => assert!(false, "C12: hearsay removed a stored node"),
            (None, None) => {}
        },
        _ => {} // own id: survey asserts it is nowhere
    }
    // nothing else appeared
    let mut live = 0;
    let mut k = 0;
    while k < 64 {
        if after[k].is_some() {
            live += 1;
        }
        k += 1;
    }
    assert!(live <= 2, "C12: more nodes were admitted than were named");
    kani::cover!(pre_existing == Some(NodeStatus::Questionable), "stored node questionable before");
    kani::cover!(true, "end of harness reached");
}

#[kani::proof]
#[kani::unwind(66)]
#[kani::stub(std::hash::RandomState::new, crate::verif::stub_random_state_new)]
fn c12_add_nodes_fresh_name() {
    add_nodes_step(0);
}

#[kani::proof]
#[kani::unwind(66)]
#[kani::stub(std::hash::RandomState::new, crate::verif::stub_random_state_new)]
fn c12_add_nodes_own_id() {
    add_nodes_step(1);
}


#[kani::proof]
#[kani::unwind(66)]
#[kani::stub(std::hash::RandomState::new, crate::verif::stub_random_state_new)]
fn c12_add_nodes_existing_by_hearsay() {
    add_nodes_step(3);
}

#[kani::proof]
#[kani::unwind(66)]
#[kani::stub(std::hash::RandomState::new, crate::verif::stub_random_state_new)]
fn c12_add_nodes_alias_of_responder() {
    add_nodes_step(5);
}

// ---------------------------------------------------------------------------------------------
// C09: how the enumeration is set up over a table (no `next()` walk, F23): it starts at the
// bucket index given by the prefix the target shares with the local id, hands the last
// ("assorted") bucket's nodes out by their own ideal index, and reads sorted buckets by index.
// ---------------------------------------------------------------------------------------------

fn closest_setup(nb: usize) {
    // every raw byte is a valid choice (keeps native sanity / fallback replay runs useful)
    let s: usize = (kani::any::<u8>() % 161) as usize;
    clock::start_fixed();
    let table = symbolic_table_n(nb, 8);
    // target = local id (all zero) with bit s flipped; s = 160: the local id itself
    let target = if s < MAX_BUCKETS {
        NodeId::from([0u8; 20]).flip_bit(s)
    } else {
        NodeId::from([0u8; 20])
    };
    let it = table.closest_nodes(target);
    assert!(it.start_index == s && it.current_index == s, "C09: enumeration does not start at the bucket sharing the target's prefix");
    // sorted buckets are read by their own index, the last bucket only through the assorted list
    let idx: usize = (kani::any::<u8>() % 160) as usize;
    let direct = bucket_iterator(&table.buckets, idx).is_some();
    assert!(direct == (idx + 1 < nb), "C09: a bucket index is read from the wrong bucket");
    match &it.assorted_nodes {
        Some(a) => {
            let mut j = 0;
            while j < 8 {
                // placeholders of the last bucket carry the zero id (ideal index 160) and are never live
                assert!(a[j].0 == leading_bit_count(table.node_id, a[j].1.id()), "C09: an assorted node is handed out at a wrong bucket index");
                assert!(!a[j].2, "C09: an assorted node is marked as already returned");
                j += 1;
            }
        }
        None => assert!(false, "C09: the last bucket's nodes are not enumerated"),
    }
    kani::cover!(s == MAX_BUCKETS, "target equals the local id");
    kani::cover!(nb < 2 || s + 1 < nb, "target inside the sorted buckets (if there are any)");
}

#[kani::proof]
#[kani::unwind(21)]
#[kani::stub(std::hash::RandomState::new, crate::verif::stub_random_state_new)]
fn c09_closest_setup_b3() {
    closest_setup(3);
}

#[kani::proof]
#[kani::unwind(21)]
#[kani::stub(std::hash::RandomState::new, crate::verif::stub_random_state_new)]
fn c09_closest_setup_b1() {
    closest_setup(1);
}

#[kani::proof]
#[kani::unwind(21)]
#[kani::stub(std::hash::RandomState::new, crate::verif::stub_random_state_new)]
fn c09_closest_setup_b2() {
    closest_setup(2);
}

// ---------------------------------------------------------------------------------------------
// C08 (table level, kernels): the arithmetic that decides where a node goes and when a bucket
// may split. Loop-free / 20-iteration integer code, all inputs symbolic.
// ---------------------------------------------------------------------------------------------

/// bucket_placement: the bucket index is the shared-prefix length, capped at the last bucket.
#[kani::proof]
fn c08_bucket_placement_kernel() {
    let same: usize = kani::any();
    let nb: usize = kani::any();
    kani::assume(same <= MAX_BUCKETS && nb >= 1 && nb <= MAX_BUCKETS);
    let p = bucket_placement(same, nb);
    assert!(p < nb, "C08: placement outside the table");
    assert!(p == if same < nb { same } else { nb - 1 }, "C08: a node is placed in a bucket that does not match its shared prefix");
    // only the last bucket (the one covering the local id) may split, and never beyond 160 buckets
    let idx: usize = kani::any();
    kani::assume(idx < nb);
    assert!(can_split_bucket(nb, idx) == (idx == nb - 1 && nb < MAX_BUCKETS), "C08: a bucket other than the last one splits, or the table grows beyond 160 buckets");
    kani::cover!(same >= nb, "node belongs to a bucket that does not exist yet");
}

/// leading_bit_count: number of leading bits two ids share = position of their first differing bit.
#[kani::proof]
#[kani::unwind(22)]
fn c08_leading_bit_count_kernel() {
    let a: [u8; 20] = kani::any();
    let bit: usize = kani::any();
    kani::assume(bit <= MAX_BUCKETS);
    let tail: [u8; 20] = kani::any();
    // b = a with bit `bit` flipped and arbitrary changes behind it (bit = 160: b = a)
    let mut b = a;
    if bit < MAX_BUCKETS {
        let byte = bit / 8;
        let mask: u8 = 0x80 >> (bit % 8);
        b[byte] ^= mask;
        // bits after `bit` in the same byte and all later bytes: arbitrary
        let low: u8 = mask.wrapping_sub(1);
        b[byte] = (b[byte] & !low) | (tail[byte] & low);
        let mut k = 0;
        while k < 20 {
            if k > byte {
                b[k] = tail[k];
            }
            k += 1;
        }
    }
    let n = leading_bit_count(NodeId::from(a), NodeId::from(b));
    assert!(n == bit, "C08: shared-prefix length computed wrongly");
    // flip_bit flips exactly that bit
    if bit < MAX_BUCKETS {
        let f: [u8; 20] = NodeId::from(a).flip_bit(bit).into();
        let mut k = 0;
        while k < 20 {
            let want = if k == bit / 8 { a[k] ^ (0x80 >> (bit % 8)) } else { a[k] };
            assert!(f[k] == want, "C08: flip_bit changes the wrong bit");
            k += 1;
        }
    }
    kani::cover!(bit == MAX_BUCKETS, "equal ids");
    kani::cover!(bit == 159, "ids differing in the last bit only");
}


/// C12: a stored contact is found only under its full (id, address) handle: a query that claims a
/// stored id from another address does not touch (and so cannot promote) the stored contact.
#[kani::proof]
#[kani::unwind(66)]
#[kani::stub(std::hash::RandomState::new, crate::verif::stub_random_state_new)]
fn c12_find_node_needs_id_and_address() {
    clock::start_fixed();
    let mut t = symbolic_table_n(2, 0);
    let e_id = crate::verif::id_with_prefix(0, E_KEY);
    let e_addr = concrete_addr_v4(E_KEY);
    crate::bucket::verif::set_slot(&mut t.buckets[0], 3, Node::as_questionable(e_id, e_addr));
    let other_addr = concrete_addr_v4(77);
    assert!(t.find_node_mut(&NodeHandle::new(e_id, other_addr)).is_none(), "C12: a contact is found under a foreign address");
    assert!(t.find_node_mut(&NodeHandle::new(crate::verif::id_with_prefix(0, 9), e_addr)).is_none(), "C12: a contact is found under a foreign id");
    match t.find_node_mut(&NodeHandle::new(e_id, e_addr)) {
        Some(n) => {
            n.remote_request();
            assert!(n.status() == NodeStatus::Good, "C10: a query from a known contact does not make it good");
        }
        None => assert!(false, "C12: a stored contact is not found under its own handle"),
    }
    kani::cover!(true, "end of harness reached");
}



/// C09, full table (160 buckets): there is no assorted bucket any more - every bucket, including
/// the last one, is read by its own index exactly once.
#[kani::proof]
#[kani::unwind(163)]
#[kani::stub(std::hash::RandomState::new, crate::verif::stub_random_state_new)]
fn c09_closest_setup_full_table() {
    let s: usize = (kani::any::<u8>() % 161) as usize;
    clock::start_fixed();
    let mut t = RoutingTable::new(NodeId::from([0u8; 20]));
    let mut i = 1;
    while i < MAX_BUCKETS {
        t.buckets.push(Bucket::new());
        i += 1;
    }
    let target = if s < MAX_BUCKETS { NodeId::from([0u8; 20]).flip_bit(s) } else { NodeId::from([0u8; 20]) };
    let it = t.closest_nodes(target);
    assert!(it.start_index == s && it.current_index == s, "C09: enumeration does not start at the bucket sharing the target's prefix");
    assert!(it.assorted_nodes.is_none(), "C09: a full table still hands out its last bucket a second time as assorted nodes");
    let idx: usize = (kani::any::<u8>() % 160) as usize;
    assert!(bucket_iterator(&t.buckets, idx).is_some(), "C09: a bucket of a full table is not read by its index");
    kani::cover!(true, "end of harness reached");
}
