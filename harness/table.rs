// harnesses for table (none yet)
