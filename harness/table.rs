// C09 — nearest-node enumeration; C08 — table shape (placement, split); C12 — hearsay admission.
use super::*;
use crate::bucket::verif::symbolic_bucket;
use crate::node::verif::symbolic_slot_with;
use crate::verif::{clock, concrete_addr_v4};

// ---------------------------------------------------------------------------------------------
// C09 (a): `next_bucket_index`, one symbolic step of the alternating walk.
//
// V(s, c) = set of bucket indices visited when the walk that started at `s` stands at `c`:
//   every j with |j - s| < |c - s|, plus c itself, plus (if c is left of s) its mirror 2s - c.
// Step obligations (together with V(s, s) = {s} they give, by induction over the walk, that every
// index in [0, 160) is visited exactly once, nearest first, for every start including 160):
//   next = Some(n)  =>  n < 160, n not in V(s, c), and V(s, n) = V(s, c) + {n}
//   next = None     =>  V(s, c) contains all of [0, 160)
// ---------------------------------------------------------------------------------------------

fn dist(a: usize, b: usize) -> usize {
    if a > b {
        a - b
    } else {
        b - a
    }
}

fn visited(s: usize, c: usize, j: usize) -> bool {
    if j >= MAX_BUCKETS {
        return false;
    }
    dist(j, s) < dist(c, s) || j == c || (c < s && j == s + (s - c))
}

#[kani::proof]
fn c09_next_bucket_index_step() {
    let s: usize = kani::any();
    let c: usize = kani::any();
    let i: usize = kani::any();
    kani::assume(s <= MAX_BUCKETS);
    // a walk position is the start itself or an index inside the table
    kani::assume(c == s || c < MAX_BUCKETS);
    kani::assume(i < MAX_BUCKETS);
    match next_bucket_index(MAX_BUCKETS, s, c) {
        Some(n) => {
            assert!(n < MAX_BUCKETS, "C09: walk leaves the table");
            assert!(!visited(s, c, n), "C09: walk visits a bucket index twice");
            assert!(
                visited(s, n, i) == (visited(s, c, i) || i == n),
                "C09: walk skips a bucket index or is not nearest-first"
            );
            // nearest first: nothing unvisited is strictly nearer to the start than n
            if !visited(s, c, i) {
                assert!(dist(i, s) >= dist(n, s), "C09: a nearer bucket index is visited later");
            }
        }
        None => {
            assert!(visited(s, c, i), "C09: walk ends before every bucket index was visited");
        }
    }
    kani::cover!(s == MAX_BUCKETS && c == s, "start at 160 (target = own id)");
    kani::cover!(c < s && s + (s - c) + 1 >= MAX_BUCKETS, "right side exhausted");
}

/// The whole walk from a symbolic start: it makes exactly as many moves as there are other bucket
/// indices (159 from a start inside the table, 160 from start 160) and then ends. With the step
/// harness (no index twice) this mechanises "every index exactly once".
#[kani::proof]
#[kani::unwind(163)]
fn c09_walk_length() {
    let s: usize = kani::any();
    kani::assume(s <= MAX_BUCKETS);
    let mut c = s;
    let mut moves = 0usize;
    let mut ended = false;
    let mut k = 0;
    while k < 161 {
        match next_bucket_index(MAX_BUCKETS, s, c) {
            Some(n) => {
                c = n;
                moves += 1;
            }
            None => {
                ended = true;
                break;
            }
        }
        k += 1;
    }
    assert!(ended, "C09: walk does not end after visiting every bucket index");
    assert!(moves == if s < MAX_BUCKETS { MAX_BUCKETS - 1 } else { MAX_BUCKETS }, "C09: walk visits a wrong number of bucket indices");
    kani::cover!(true, "end of harness reached");
}

// ---------------------------------------------------------------------------------------------
// Directly constructed tables (local id = 0...0, so a node's ideal bucket index is the number of
// leading zero bits of its id).
// ---------------------------------------------------------------------------------------------

/// ideal bucket index of slot j in bucket i of a table with `nb` buckets
fn slot_ideal(nb: usize, i: usize, j: usize) -> usize {
    if i + 1 < nb {
        i
    } else {
        // last bucket: assorted nodes, ideal indices >= nb - 1, not sorted, with repeats
        const EXTRA: [usize; 8] = [0, 0, 1, 2, 5, 60, 120, 1];
        let v = (nb - 1) + EXTRA[j];
        if v > 151 {
            151
        } else {
            v
        }
    }
}

fn slot_key(i: usize, j: usize) -> u8 {
    (i * 8 + j) as u8
}

/// Table with `nb` buckets whose every slot holds its own concrete identity (placement invariant
/// respected) in an arbitrary state (coarse ages), see bucket.rs / DESIGN.md F21.
fn symbolic_table(nb: usize) -> RoutingTable {
    symbolic_table_n(nb, 8)
}

/// as above, only the first `nsym` slots of each bucket are arbitrary; the rest are empty placeholders
fn symbolic_table_n(nb: usize, nsym: usize) -> RoutingTable {
    let mut t = RoutingTable::new(NodeId::from([0u8; 20]));
    t.buckets.clear();
    let mut i = 0;
    while i < nb {
        let mut b = Bucket::new();
        let mut j = 0;
        while j < 8 {
            let id = crate::verif::id_with_prefix(slot_ideal(nb, i, j), slot_key(i, j));
            if j < nsym {
                let n = symbolic_slot_with(id, concrete_addr_v4(slot_key(i, j)), true);
                crate::bucket::verif::set_slot(&mut b, j, n);
            }
            j += 1;
        }
        t.buckets.push(b);
        i += 1;
    }
    t
}

/// C09 (b): enumerate the nearest nodes of a target whose shared prefix with the local id is `s`.
fn closest(nb: usize, s: usize) {
    closest_n(nb, s, 8)
}

fn closest_n(nb: usize, s: usize, nsym: usize) {
    clock::start_fixed();
    let table = symbolic_table_n(nb, nsym);
    let target = crate::verif::id_with_prefix(s, 200);
    // reference: which slots are live
    let mut live = [false; 24];
    let mut n_live = 0usize;
    let mut i = 0;
    while i < nb {
        let mut j = 0;
        for node in table.buckets[i].iter() {
            if node.status() != NodeStatus::Bad {
                live[i * 8 + j] = true;
                n_live += 1;
            }
            j += 1;
        }
        i += 1;
    }
    let mut seen = [false; 24];
    let mut yielded = 0usize;
    let mut last_dist = 0usize;
    let mut it = table.closest_nodes(target);
    let mut k = 0;
    while k < nb * 8 + 1 {
        match it.next() {
            Some(node) => {
                let key = (node.id().as_ref()[19] - 1) as usize;
                assert!(key < nb * 8, "C09: enumeration yields a node that is not in the table");
                assert!(live[key], "C09: enumeration yields a node in bad standing");
                assert!(!seen[key], "C09: enumeration yields a node twice");
                seen[key] = true;
                yielded += 1;
                let d = dist(slot_ideal(nb, key / 8, key % 8), s);
                assert!(d >= last_dist, "C09: a node of a nearer bucket is yielded after a farther one");
                last_dist = d;
            }
            None => break,
        }
        k += 1;
    }
    assert!(yielded == n_live, "C09: enumeration does not visit every live node exactly once");
    kani::cover!(n_live == nb * 8, "all nodes live");
    kani::cover!(n_live == 0, "no node live");
}


