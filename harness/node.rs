// C10 — contacts are classified good / questionable / bad per BEP5 timing (node level).
//
// The solver picks an arbitrary history of K events for one contact; a reference log of what
// happened is kept next to the real `Node`, and after every event the real `status()` is compared
// with what the property statement allows for that log.
use super::*;
use crate::verif::{clock, concrete_addr_v4, concrete_id};
use std::time::Duration;

const FIFTEEN_MIN: Duration = Duration::from_secs(15 * 60);

/// What happened to the contact so far (reference log, independent of `Node`'s fields).
struct Log {
    last_answer: Option<Duration>,
    ever_answered: bool,
    /// last query from the contact that was delivered to it (it was a known, reported contact then)
    last_query: Option<Duration>,
    /// queries we sent since its last answer (or re-admission) while it was not good, all unanswered
    unanswered_while_not_good: u32,
}

impl Log {
    fn answered_recently(&self, now: Duration) -> bool {
        match self.last_answer {
            Some(t) => now.saturating_sub(t) < FIFTEEN_MIN,
            None => false,
        }
    }
    fn queried_recently(&self, now: Duration) -> bool {
        match self.last_query {
            Some(t) => now.saturating_sub(t) < FIFTEEN_MIN,
            None => false,
        }
    }
    /// Reference classification used only to decide "was it good when we sent that query".
    fn good(&self, now: Duration) -> bool {
        self.answered_recently(now) || (self.unanswered_while_not_good < 2 && self.queried_recently(now))
    }
}

/// Returns whether the contact is currently reported (good or questionable).
fn check(node: &Node, log: &Log) -> bool {
    let now = clock::now();
    let s = node.status();
    let pingable = node.is_pingable();
    // reported good only if it answered or (being known) queried within the last 15 minutes
    if s == NodeStatus::Good {
        assert!(
            log.answered_recently(now) || log.queried_recently(now),
            "C10: reported good without an answer or a query within the last 15 minutes"
        );
    }
    // an answer keeps it good for 15 minutes
    if log.answered_recently(now) {
        assert!(s == NodeStatus::Good, "C10: answered within 15 minutes but not reported good");
    }
    // BEP5: has answered before and queried us within 15 minutes (and is not bad) => good
    if log.ever_answered && log.queried_recently(now) && log.unanswered_while_not_good < 2 {
        assert!(s == NodeStatus::Good, "C10: answered before and queried within 15 minutes but not reported good");
    }
    // known only by hearsay: questionable until it answers or queries (or is dropped as bad)
    if !log.ever_answered && log.last_query.is_none() && log.unanswered_while_not_good < 2 {
        assert!(s == NodeStatus::Questionable, "C10: hearsay-only contact is not questionable");
    }
    // two consecutive queries unanswered while not good => no longer reported
    assert!(pingable == (s != NodeStatus::Bad), "C10: is_pingable disagrees with status");
    if log.unanswered_while_not_good >= 2 {
        assert!(!pingable, "C10: contact still reported after two unanswered queries while not good");
    } else {
        assert!(pingable, "C10: contact dropped although fewer than two queries went unanswered while it was not good");
    }
    pingable
}

fn history(k: usize) {
    // all symbolic inputs first (replay convention, DESIGN.md 3.6)
    let kinds_raw: [u8; 6] = kani::any();
    let wait_s_raw: [u16; 6] = kani::any();
    let wait_ns_raw: [u32; 6] = kani::any();
    let first_is_answer: bool = kani::any();
    let mut kinds = [0u8; 6];
    let mut wait_s = [0u64; 6];
    let mut wait_ns = [0u32; 6];
    for i in 0..6 {
        // every raw value is a valid choice (keeps the native sanity runs useful): waits of
        // 0..=4095 s (68 min) plus 0..999_999_999 ns
        kinds[i] = kinds_raw[i] % 5;
        wait_s[i] = (wait_s_raw[i] & 0xfff) as u64;
        wait_ns[i] = wait_ns_raw[i] % 1_000_000_000;
    }
    clock::start_symbolic();

    let id = concrete_id(7, 1);
    let addr = concrete_addr_v4(1);
    let mut log = Log {
        last_answer: None,
        ever_answered: false,
        last_query: None,
        unanswered_while_not_good: 0,
    };
    let mut node = if first_is_answer {
        log.last_answer = Some(clock::now());
        log.ever_answered = true;
        Node::as_good(id, addr)
    } else {
        Node::as_questionable(id, addr)
    };
    let mut reported = check(&node, &log);

    let mut i = 0;
    while i < k {
        let now = clock::now();
        match kinds[i] {
            0 => {
                // the contact answered one of our queries (Bucket::add_node -> update(as_good))
                node.update(Node::as_good(id, addr));
                log.last_answer = Some(now);
                log.ever_answered = true;
                log.unanswered_while_not_good = 0;
                assert!(node.status() == NodeStatus::Good, "C10: an accepted answer did not make the contact good at once");
            }
            1 => {
                // another node named it (update(as_questionable)); a contact that was dropped as bad
                // starts a new history as a questionable one (what C11's wording expects)
                let was_reported = reported;
                node.update(Node::as_questionable(id, addr));
                if !was_reported {
                    log.unanswered_while_not_good = 0;
                    log.last_query = None;
                }
            }
            2 => {
                // it sent us a query: only contacts currently reported are looked up (find_node_mut)
                if reported {
                    node.remote_request();
                    log.last_query = Some(now);
                }
            }
            3 => {
                // we sent it a query (callers go through find_node_mut as well)
                if reported {
                    let good_before = log.good(now);
                    node.local_request();
                    if !good_before {
                        log.unanswered_while_not_good += 1;
                    }
                }
            }
            _ => {
                clock::wait(Duration::new(wait_s[i], wait_ns[i]));
            }
        }
        reported = check(&node, &log);
        i += 1;
    }
    let end = node.status();
    kani::cover!(end == NodeStatus::Bad, "history ends bad");
    kani::cover!(end == NodeStatus::Good && !log.answered_recently(clock::now()), "good by query only");
    kani::cover!(end == NodeStatus::Questionable && log.ever_answered, "answered once, now questionable");
}

#[kani::proof]
#[kani::unwind(21)]
fn c10_history_k4() {
    history(4);
}

#[kani::proof]
#[kani::unwind(21)]
fn c10_history_k5() {
    history(5);
}

#[kani::proof]
#[kani::unwind(21)]
fn c10_history_k6() {
    history(6);
}

/// Boundary instance: answer, wait exactly d, check; d symbolic around 15 minutes at 1 ns resolution.
#[kani::proof]
#[kani::unwind(3)]
fn c10_fifteen_minute_boundary() {
    let s: u64 = kani::any();
    let ns: u32 = kani::any();
    let by_query: bool = kani::any();
    kani::assume(s >= 14 * 60 && s <= 16 * 60 && ns < 1_000_000_000);
    clock::start_symbolic();
    let id = concrete_id(7, 1);
    let addr = concrete_addr_v4(1);
    let mut node = Node::as_good(id, addr);
    let d = Duration::new(s, ns);
    if by_query {
        // answered long ago, queried us now
        clock::wait(Duration::from_secs(3600));
        node.remote_request();
    }
    clock::wait(d);
    let good = node.status() == NodeStatus::Good;
    assert!(good == (d < FIFTEEN_MIN), "C10: 15-minute boundary misplaced");
    kani::cover!(d == FIFTEEN_MIN, "exactly 15 minutes");
}

// ---------------------------------------------------------------------------------------------
// Constructor of arbitrary node states for the bucket/table harnesses (C08, C09, C12).
// ---------------------------------------------------------------------------------------------

/// A node with the given identity whose history fields are arbitrary: last answer `resp_age`
/// seconds ago, optional last query from it `req_age` seconds ago, optional last query to it,
/// `refresh` unanswered queries. Every such state is accepted by `Node`'s own methods; the real
/// `status()` decides its standing.
pub(crate) fn node_in_state(
    id: NodeId,
    addr: SocketAddr,
    resp_age_s: u64,
    req_age_s: Option<u64>,
    refresh: usize,
) -> Node {
    // built from the public constructor plus field updates (not a struct literal), so that a new
    // field added to `Node` does not break the harness
    let now = Instant::now();
    let mut n = Node::as_bad(id, addr);
    n.last_response = Some(now - Duration::from_secs(resp_age_s));
    n.last_request = req_age_s.map(|a| now - Duration::from_secs(a));
    n.last_local_request = None;
    n.refresh_requests = refresh;
    n
}

/// Arbitrary live-or-bad state for a known identity (symbolic ages up to 2 h, 0..=3 unanswered queries).
pub(crate) fn symbolic_node(id: NodeId, addr: SocketAddr) -> Node {
    let resp_age: u64 = kani::any();
    let has_req: bool = kani::any();
    let req_age: u64 = kani::any();
    let refresh: usize = kani::any();
    kani::assume(resp_age <= 7200 && req_age <= 7200 && refresh <= 3);
    node_in_state(id, addr, resp_age, if has_req { Some(req_age) } else { None }, refresh)
}

/// Identity (id, addr) in an arbitrary state, including "never answered" (what an empty slot's
/// placeholder looks like to `status()`): bad, questionable or good as the real `status()` decides.
/// The handle is always the concrete (id, addr): see DESIGN.md F21 for why slot occupancy is not
/// made symbolic through the handle.
pub(crate) fn symbolic_slot(id: NodeId, addr: SocketAddr) -> Node {
    symbolic_slot_with(id, addr, false)
}

/// `coarse`: ages are drawn from {0, 899, 900, 3600} s (both sides of the 15-minute rule) instead
/// of every second in [0, 2 h]; the standing outcomes are the same, the formula is much smaller.
pub(crate) fn symbolic_slot_with(id: NodeId, addr: SocketAddr, coarse: bool) -> Node {
    let never_answered: bool = kani::any();
    let has_req: bool = kani::any();
    let refresh: usize = (kani::any::<u8>() & 3) as usize;
    let (resp_age, req_age) = if coarse {
        let a: u8 = kani::any::<u8>() & 3;
        let b: u8 = kani::any::<u8>() & 3;
        const AGES: [u64; 4] = [0, 899, 900, 3600];
        (AGES[a as usize], AGES[b as usize])
    } else {
        let resp_age: u64 = kani::any();
        let req_age: u64 = kani::any();
        kani::assume(resp_age <= 7200 && req_age <= 7200);
        (resp_age, req_age)
    };
    let now = Instant::now();
    let mut n = Node::as_bad(id, addr);
    n.last_response = if never_answered { None } else { Some(now - Duration::from_secs(resp_age)) };
    n.last_request = if never_answered || !has_req { None } else { Some(now - Duration::from_secs(req_age)) };
    n.last_local_request = None;
    n.refresh_requests = if never_answered { 0 } else { refresh };
    n
}
