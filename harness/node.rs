// harnesses for node (none yet)
