// C14 — no datagram can crash, abort or exhaust the node (piece A: the structural pre-check that
// guards the decoder's length-prefixed allocations and its recursion).
use super::*;

/// Reference lexer, written token by token the way torrust-serde-bencode's `parse()` works:
/// returns (kind, declared length, position after the token header) or None when the decoder
/// would report a lexical error / end of input at `pos`.
/// kind: 0 = int, 1 = bytes, 2 = list/dict start, 3 = end
fn ref_token(b: &[u8], pos: usize) -> Option<(u8, usize, usize)> {
    if pos >= b.len() {
        return None;
    }
    let c = b[pos];
    if c == b'i' {
        let mut p = pos + 1;
        while p < b.len() {
            if b[p] == b'e' {
                return Some((0, 0, p + 1));
            }
            p += 1;
        }
        None
    } else if c >= b'0' && c <= b'9' {
        // the decoder collects everything up to ':' and parses it as usize; for the comparison
        // with the (<= 40 byte) rest of the input the value is only needed up to a small cap
        let mut p = pos;
        let mut len: u32 = 0; // saturates at >= 1000 ("larger than any input here")
        let mut digits_only = true;
        while p < b.len() && b[p] != b':' {
            if b[p] >= b'0' && b[p] <= b'9' {
                if len < 1000 {
                    len = len * 10 + (b[p] - b'0') as u32;
                }
            } else {
                digits_only = false;
            }
            p += 1;
        }
        if p >= b.len() || !digits_only {
            return None; // end of stream / "can't parse as string length": no allocation happens
        }
        Some((1, len as usize, p + 1))
    } else if c == b'l' || c == b'd' {
        Some((2, 0, pos + 1))
    } else if c == b'e' {
        Some((3, 0, pos + 1))
    } else {
        None
    }
}

/// What the property needs from an accepted input: walking the first value the way the decoder's
/// lexer does, every byte string it would allocate fits the remaining input and the nesting stays
/// within MAX_DEPTH.
fn accepted_is_safe(b: &[u8]) -> bool {
    let mut pos = 0;
    let mut depth = 0usize;
    let mut steps = 0;
    while steps <= b.len() {
        match ref_token(b, pos) {
            None => return true, // the decoder stops here with an error
            Some((1, len, after)) => {
                if len > b.len() - after {
                    return false; // would allocate more than the input holds
                }
                pos = after + len;
            }
            Some((2, _, after)) => {
                depth += 1;
                if depth > MAX_DEPTH {
                    return false;
                }
                pos = after;
            }
            Some((3, _, after)) => {
                if depth == 0 {
                    return true; // decoder reports an unexpected end marker
                }
                depth -= 1;
                pos = after;
            }
            Some((_, _, after)) => pos = after,
        }
        if depth == 0 {
            return true; // first value complete: the decoder reads no further
        }
        steps += 1;
    }
    true
}

fn precheck_on(n: usize) {
    let buf: [u8; 40] = kani::any();
    let input = &buf[..n];
    let r = check_structure(input);
    if r.is_ok() {
        assert!(accepted_is_safe(input), "C14: pre-check accepts an input whose string length or nesting is unsafe for the decoder");
    }
    kani::cover!(r.is_err(), "some input is rejected");
    kani::cover!(r.is_ok(), "some input is accepted");
}

#[kani::proof]
#[kani::unwind(10)]
fn c14_precheck_any_8_bytes() {
    precheck_on(8);
}

#[kani::proof]
#[kani::unwind(14)]
fn c14_precheck_any_12_bytes() {
    precheck_on(12);
}

#[kani::proof]
#[kani::unwind(18)]
fn c14_precheck_any_16_bytes() {
    precheck_on(16);
}

/// Length bombs: `d1:t<k digits>:` + tail, every digit symbolic (every magnitude up to and beyond
/// 2^64): rejected unless the declared length fits the tail.
fn length_bomb(digits: usize, tail: usize) {
    // the datagram is a single top-level byte string `<digits>:<tail>`: the scan stops right after
    // it, so the harness measures the length logic alone (a `d1:t` prefix would only add concrete
    // tokens in front and a symbolic scan position behind)
    let buf: [u8; 24] = kani::any();
    let mut input = [b'x'; 40];
    // declared value <= tail (tail <= 9) iff all leading digits are 0 and the last digit <= tail
    let mut leading_zero = true;
    let mut i = 0;
    while i < digits {
        kani::assume(buf[i] >= b'0' && buf[i] <= b'9');
        input[i] = buf[i];
        if i + 1 < digits && buf[i] != b'0' {
            leading_zero = false;
        }
        i += 1;
    }
    let fits = leading_zero && (buf[digits - 1] - b'0') as usize <= tail;
    input[digits] = b':';
    let n = digits + 1 + tail;
    let r = check_structure(&input[..n]);
    assert!(r.is_err() == !fits, "C14: the pre-check accepts a string length larger than the remaining input, or refuses one that fits");
    kani::cover!(!fits && buf[0] == b'9', "a huge length is rejected");
    kani::cover!(fits, "a fitting length exists");
}

#[kani::proof]
#[kani::unwind(12)]
fn c14_length_bomb_5_digits() {
    length_bomb(5, 4);
}

#[kani::proof]
#[kani::unwind(27)]
fn c14_length_bomb_20_digits() {
    length_bomb(20, 4);
}

#[kani::proof]
#[kani::unwind(24)]
fn c14_length_bomb_21_digits() {
    length_bomb(21, 0);
}

#[kani::proof]
#[kani::unwind(9)]
fn c14_length_bomb_1_to_2_digits() {
    length_bomb(1, 4);
    length_bomb(2, 4);
}

/// Nesting bombs: a run of opening markers is rejected as soon as it is deeper than MAX_DEPTH
/// (concrete bytes: two concrete executions inside CBMC, plus a symbolic choice of l/d for a short
/// prefix that must be accepted).
#[kani::proof]
#[kani::unwind(42)]
fn c14_nesting_bomb() {
    let mut input = [b'l'; 40];
    let mut i = 0;
    while i < 40 {
        if i % 3 == 1 {
            input[i] = b'd';
        }
        i += 1;
    }
    assert!(check_structure(&input[..40]).is_err(), "C14: 40 levels of nesting pass the pre-check");
    assert!(check_structure(&input[..MAX_DEPTH + 1]).is_err(), "C14: MAX_DEPTH + 1 levels of nesting pass the pre-check");
    assert!(check_structure(&input[..MAX_DEPTH]).is_ok(), "C14: MAX_DEPTH levels of nesting are refused");
    kani::cover!(true, "end of harness reached");
}

/// No valid message is lost: every canonical encoding of the C13 shapes passes the pre-check
/// (content bytes symbolic - ids, tokens and transaction ids may look like any bencode).
/// NATIVE ONLY (role native-validation): building the canonical encodings is too heavy for the
/// solver (DESIGN.md F24); pseudo-random valid messages are pushed through the reference encoder,
/// the real encoder, the pre-check and the real decoder.
#[kani::proof]
fn c14_precheck_accepts_valid_messages_native() {
    use crate::message::{Message, MessageBody, Request, Response, PingRequest, AnnouncePeerRequest, Error as KrpcError};
    use crate::message::verif::ref_encode;
    let which: u8 = kani::any::<u8>() % 4;
    let id: [u8; 20] = kani::any();
    let ih: [u8; 20] = kani::any();
    let t: [u8; 4] = kani::any();
    let tok: [u8; 8] = kani::any();
    let port: u16 = kani::any();
    let a4: [u8; 4] = kani::any();
    let m = match which {
        0 => Message { transaction_id: t.to_vec(), body: MessageBody::Request(Request::Ping(PingRequest { id: id.into() })) },
        1 => Message {
            transaction_id: t.to_vec(),
            body: MessageBody::Request(Request::AnnouncePeer(AnnouncePeerRequest { id: id.into(), info_hash: ih.into(), port: Some(port), token: tok.to_vec() })),
        },
        2 => Message {
            transaction_id: t.to_vec(),
            body: MessageBody::Response(Response {
                id: id.into(),
                values: vec![std::net::SocketAddr::from((std::net::Ipv4Addr::from(a4), port))],
                nodes_v4: vec![crate::node::NodeHandle::new(ih.into(), std::net::SocketAddr::from((std::net::Ipv4Addr::from(a4), port)))],
                nodes_v6: vec![],
                token: Some(tok.to_vec()),
            }),
        },
        _ => Message { transaction_id: t.to_vec(), body: MessageBody::Error(KrpcError { code: 203, message: String::from("abc") }) },
    };
    let r = ref_encode(&m);
    assert!(check_structure(&r.buf[..r.len]).is_ok(), "C14: the pre-check rejects a valid message");
    let enc = m.encode().expect("model: a valid message failed to encode");
    assert!(enc.len() == r.len && enc[..] == r.buf[..r.len], "C13: encoding differs from the canonical bencoding");
    let back = Message::decode(&enc);
    assert!(matches!(back, Ok(ref d) if *d == m), "C13: decoding the canonical encoding does not give the message back");
}
