// harnesses for bencode (none yet)
